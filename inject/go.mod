module verifinject

go 1.26
