package harness

import (
	"bytes"
	"context"
	"encoding/gob"
	"errors"
	"fmt"
	"math"
	"runtime"
	"sort"
	"strconv"
	"strings"
	"sync/atomic"
	"time"

	otter "github.com/maypok86/otter/v2"
	"github.com/maypok86/otter/v2/internal/verif/vdet"
	"github.com/maypok86/otter/v2/internal/verif/vsched"
	"github.com/maypok86/otter/v2/stats"
)

// The cache rig: one real otter cache with a manual clock, a harness-chosen
// executor, recording deletion handlers / calculators / loaders, and a small
// textual operation language shared by the E1 and E2 scenarios.
//
// Values are ints: v = id*16 + weight (weight 0..15). The weigher (only with
// MaximumWeight) returns v&15.

const tickNs = int64(1) << 30

type CacheCfg struct {
	MaxSize     int      `json:"max_size,omitempty"`
	MaxWeight   uint64   `json:"max_weight,omitempty"`
	Expiry      string   `json:"expiry,omitempty"`  // "", creating, writing, accessing, custom
	TTL         int64    `json:"ttl,omitempty"`     // default duration returned by the expiry calculator
	Refresh     string   `json:"refresh,omitempty"` // "", creating, writing
	RefreshTTL  int64    `json:"refresh_ttl,omitempty"`
	Executor    string   `json:"executor,omitempty"` // caller (default) | default | deferred
	InitCap     int      `json:"init_cap,omitempty"`
	Stats       bool     `json:"stats,omitempty"`
	ClockStart  int64    `json:"clock_start,omitempty"`
	WriteMax    uint32   `json:"write_max,omitempty"` // override of maxWriteBufferSize
	Collide     bool     `json:"collide,omitempty"`   // every key hashes to the same bucket and meta byte
	Hashes      []uint64 `json:"hashes,omitempty"`    // per-key hash override (index = key)
	NoHandlers  bool     `json:"no_handlers,omitempty"`
	// CancelledCtx: Get/BulkGet/Refresh are called with a context that is already cancelled (the cache passes the
	// context through to the loader; it does not decide anything on it)
	CancelledCtx bool `json:"cancelled_ctx,omitempty"`
	SampleSize  uint64   `json:"sample_size,omitempty"`  // small-scope sample period of the hill climber (sequential runs only)
	WeightShift uint     `json:"weight_shift,omitempty"` // weigher returns (value & 15) << shift: large, byte-size like weights
	Procs       int      `json:"procs,omitempty"`        // what runtime.GOMAXPROCS(0) answers inside otter (fan-out of the parallel table copy)
}

func (c CacheCfg) String() string {
	var parts []string
	switch {
	case c.MaxSize > 0:
		parts = append(parts, fmt.Sprintf("size%d", c.MaxSize))
	case c.MaxWeight > 0:
		parts = append(parts, fmt.Sprintf("weight%d", c.MaxWeight))
	default:
		parts = append(parts, "unbounded")
	}
	if c.Expiry != "" {
		parts = append(parts, "exp-"+c.Expiry)
	}
	if c.Refresh != "" {
		parts = append(parts, "ref-"+c.Refresh)
	}
	if c.Executor != "" {
		parts = append(parts, "exec-"+c.Executor)
	}
	return strings.Join(parts, ",")
}

type manualClock struct {
	now    int64
	tick   chan time.Time
	sample map[int]int64 // last value sampled per managed thread
}

func (m *manualClock) NowNano() int64 {
	if vsched.FreeRunning {
		return atomic.LoadInt64(&m.now)
	}
	if m.sample != nil {
		m.sample[vsched.CurID()] = m.now
	}
	return m.now
}
func (m *manualClock) Tick(time.Duration) <-chan time.Time { return m.tick }

type DelEvent struct {
	Key, Val int
	Cause    otter.DeletionCause
	At       int64 // logical stamp
	Clock    int64 // clock value when delivered
	Thread   int
}

func (e DelEvent) String() string { return fmt.Sprintf("%s(%d=%d)", e.Cause, e.Key, e.Val) }

type CalcCall struct {
	Hook   string // create | update | read | rcreate | rupdate | rreload | rfail
	Key    int
	Val    int
	D      int64
	Entry  otter.Entry[int, int]
	Clock  int64
	Thread int
	At     int64 // harness stamp (orders calculator calls against loader entry/exit stamps)
}

type LoadCall struct {
	Kind        string // load | reload | bulkload | bulkreload
	Keys        []int
	Olds        []int
	Out         map[int]int // values produced
	Err         string      // "", loaderr, notfound, panic
	Enter, Exit int64
	Thread      int
}

// OpResult is the observable outcome of one rig operation.
type OpResult struct {
	Op      string
	Val     int
	OK      bool
	Err     string
	Entry   *otter.Entry[int, int]
	Map     map[int]int
	List    []int // iteration results (keys) or values
	Entries []otter.Entry[int, int]
	Panic   string
	U64     uint64
	Int     int
	NilChan bool
	Calls   int // compute callback invocations
	SawVal  int
	SawOK   bool
	joined  bool
}

func (r OpResult) String() string {
	var sb strings.Builder
	fmt.Fprintf(&sb, "%s ->", r.Op)
	if r.Panic != "" {
		fmt.Fprintf(&sb, " panic(%s)", r.Panic)
		return sb.String()
	}
	fmt.Fprintf(&sb, " %d,%v", r.Val, r.OK)
	if r.Err != "" {
		fmt.Fprintf(&sb, " err=%s", r.Err)
	}
	if r.Entry != nil {
		fmt.Fprintf(&sb, " entry{v=%d w=%d exp=%d ref=%d snap=%d}", r.Entry.Value, r.Entry.Weight, r.Entry.ExpiresAtNano, r.Entry.RefreshableAtNano, r.Entry.SnapshotAtNano)
	}
	if r.Map != nil {
		var ks []int
		for k := range r.Map {
			ks = append(ks, k)
		}
		sort.Ints(ks)
		sb.WriteString(" map{")
		for _, k := range ks {
			fmt.Fprintf(&sb, "%d:%d ", k, r.Map[k])
		}
		sb.WriteString("}")
	}
	if r.List != nil {
		fmt.Fprintf(&sb, " list%v", r.List)
	}
	if r.U64 != 0 || r.Int != 0 {
		fmt.Fprintf(&sb, " n=%d/%d", r.U64, r.Int)
	}
	if r.NilChan {
		sb.WriteString(" nilchan")
	}
	return sb.String()
}

type Rig struct {
	Cfg      CacheCfg
	C        *otter.Cache[int, int]
	Clock    *manualClock
	X        *Exec
	Counter  *stats.Counter
	Atomic   []DelEvent
	Events   []DelEvent
	Calcs    []CalcCall
	Loads    []LoadCall
	Deferred []func()
	// per-thread pending parameters for calculators / loaders
	ttl      map[int]int64
	rttl     map[int]int64
	opIndex  map[int]int
	Installs map[int]int // value -> key, every value handed to the cache by a write op or produced by a loader
	logs     []string
	// loader behaviour for the current op of a thread
	loadPlan         map[int]string
	stamp            int64
	savedIter        func() []int // iterator obtained by "mkiter", ranged by "useiter"
	inLoader         atomic.Int32 // loader invocations currently running (gate for "awaitload")
	threadsDone      atomic.Int32
	quiet            bool // race pass: handlers, calculators and loaders record nothing
	quietID          atomic.Int64
	Saved            []byte
	refreshChans     []refreshChan
	bulkRefreshChans []bulkRefreshChan
}

func (r *Rig) now() int64 {
	if r.X != nil {
		return r.X.Now()
	}
	r.stamp++
	return r.stamp
}

func mkVal(id int, w int) int { return id*16 + (w & 15) }
func valWeight(v int) uint32  { return uint32(v & 15) }
func valID(v int) int         { return v >> 4 }

var errLoad = errors.New("load failed")

// NewRig builds the cache. It must be called natively (no exploration active).
func NewRig(cfg CacheCfg, x *Exec) *Rig {
	r := &Rig{Cfg: cfg, X: x, quiet: vsched.FreeRunning, ttl: map[int]int64{}, rttl: map[int]int64{}, opIndex: map[int]int{}, Installs: map[int]int{}, loadPlan: map[int]string{}}
	r.Clock = &manualClock{now: cfg.ClockStart, tick: make(chan time.Time), sample: map[int]int64{}}
	if cfg.Procs > 0 {
		vdet.Procs = cfg.Procs
	}
	if cfg.Collide {
		vdet.HashFn = func(seed uint64, key any) uint64 { return 5 }
	} else if len(cfg.Hashes) > 0 {
		hs := cfg.Hashes
		vdet.HashFn = func(seed uint64, key any) uint64 {
			if k, ok := key.(int); ok && k >= 0 && k < len(hs) {
				return hs[k]
			}
			return vdet.DefaultHash(seed, key)
		}
	}
	if cfg.WriteMax > 0 {
		otter.VerifSetBufferSizes(cfg.WriteMax, 0)
	} else {
		otter.VerifSetBufferSizes(512, 16)
	}
	o := &otter.Options[int, int]{
		MaximumSize:     cfg.MaxSize,
		MaximumWeight:   cfg.MaxWeight,
		InitialCapacity: cfg.InitCap,
		Clock:           r.Clock,
		Logger:          &otter.NoopLogger{},
	}
	if cfg.MaxWeight > 0 {
		o.Weigher = func(k, v int) uint32 { return valWeight(v) << cfg.WeightShift }
	}
	switch cfg.Executor {
	case "", "caller":
		o.Executor = func(fn func()) { fn() }
	case "default":
		// nil: otter's default `go fn()` which the overlay turns into a managed thread
	case "deferred":
		o.Executor = func(fn func()) {
			lockFree()
			r.Deferred = append(r.Deferred, fn)
			unlockFree()
		}
	default:
		panic("unknown executor " + cfg.Executor)
	}
	if !cfg.NoHandlers {
		o.OnAtomicDeletion = func(e otter.DeletionEvent[int, int]) {
			if r.quiet {
				return
			}
			r.Atomic = append(r.Atomic, DelEvent{e.Key, e.Value, e.Cause, r.now(), r.Clock.now, vsched.CurID()})
		}
		o.OnDeletion = func(e otter.DeletionEvent[int, int]) {
			if r.quiet {
				return
			}
			r.Events = append(r.Events, DelEvent{e.Key, e.Value, e.Cause, r.now(), r.Clock.now, vsched.CurID()})
		}
	}
	rec := func(hook string, d int64) func(e otter.Entry[int, int]) time.Duration {
		return func(e otter.Entry[int, int]) time.Duration {
			dd := d
			if r.quiet {
				return time.Duration(dd)
			}
			if t, ok := r.ttl[vsched.CurID()]; ok && t != 0 && !strings.HasPrefix(hook, "r") {
				dd = t
			}
			if t, ok := r.rttl[vsched.CurID()]; ok && t != 0 && strings.HasPrefix(hook, "r") {
				dd = t
			}
			r.Calcs = append(r.Calcs, CalcCall{Hook: hook, Key: e.Key, Val: e.Value, D: dd, Entry: e, Clock: r.Clock.now, Thread: vsched.CurID(), At: r.now()})
			return time.Duration(dd)
		}
	}
	switch cfg.Expiry {
	case "":
	case "creating":
		o.ExpiryCalculator = otter.ExpiryCreatingFunc(rec("create", cfg.TTL))
	case "writing":
		o.ExpiryCalculator = otter.ExpiryWritingFunc(rec("write", cfg.TTL))
	case "accessing":
		o.ExpiryCalculator = otter.ExpiryAccessingFunc(rec("access", cfg.TTL))
	case "custom":
		o.ExpiryCalculator = &customExpiry{r: r, d: cfg.TTL}
	default:
		panic("unknown expiry " + cfg.Expiry)
	}
	switch cfg.Refresh {
	case "":
	case "creating":
		o.RefreshCalculator = otter.RefreshCreatingFunc(rec("rcreate", cfg.RefreshTTL))
	case "writing":
		o.RefreshCalculator = otter.RefreshWritingFunc(rec("rwrite", cfg.RefreshTTL))
	default:
		panic("unknown refresh " + cfg.Refresh)
	}
	if cfg.Stats {
		r.Counter = stats.NewCounter()
		o.StatsRecorder = r.Counter
	}
	// VerifNew = New without runtime.AddCleanup (cleanups keep every explored cache alive for two more GC cycles)
	c, err := otter.VerifNew(o)
	if err != nil {
		panic(err)
	}
	r.C = c
	return r
}

// customExpiry: create/update return the per-op TTL (or the default), reads return the remaining duration
// unless a per-op TTL is pending for the reading thread ("reads only ever extend deadlines").
type customExpiry struct {
	r *Rig
	d int64
}

func (c *customExpiry) pick(hook string, e otter.Entry[int, int], def int64) time.Duration {
	d := def
	if c.r.quiet {
		return time.Duration(d)
	}
	if t, ok := c.r.ttl[vsched.CurID()]; ok && t != 0 {
		d = t
	}
	c.r.Calcs = append(c.r.Calcs, CalcCall{Hook: hook, Key: e.Key, Val: e.Value, D: d, Entry: e, Clock: c.r.Clock.now, Thread: vsched.CurID(), At: c.r.now()})
	return time.Duration(d)
}
func (c *customExpiry) ExpireAfterCreate(e otter.Entry[int, int]) time.Duration {
	return c.pick("create", e, c.d)
}
func (c *customExpiry) ExpireAfterUpdate(e otter.Entry[int, int], old int) time.Duration {
	return c.pick("update", e, c.d)
}
func (c *customExpiry) ExpireAfterRead(e otter.Entry[int, int]) time.Duration {
	return c.pick("read", e, int64(e.ExpiresAfter()))
}

// quietView returns a shallow copy whose bookkeeping maps are private to one operation, so that
// concurrent operations of the free-running race pass do not share harness state.
func (r *Rig) quietView() *Rig {
	return &Rig{Cfg: r.Cfg, C: r.C, Clock: r.Clock, X: r.X, Counter: r.Counter, quiet: true,
		ttl: map[int]int64{}, rttl: map[int]int64{}, opIndex: map[int]int{}, Installs: map[int]int{}, loadPlan: map[int]string{}}
}

// Close stops the cache's goroutines (native) and breaks the reference cycle
// cache -> handlers -> rig -> *Cache that would keep runtime.AddCleanup from ever
// releasing the cache (its argument must not reach the watched pointer).
func (r *Rig) Close() {
	if r.C != nil {
		r.C.StopAllGoroutines()
		r.C = nil
	}
}

// RunDeferred runs queued executor tasks (deferred executor), including tasks they enqueue.
func (r *Rig) RunDeferred(max int) int {
	n := 0
	for len(r.Deferred) > 0 && (max <= 0 || n < max) {
		fn := r.Deferred[0]
		r.Deferred = r.Deferred[1:]
		fn()
		n++
	}
	return n
}

type rigLoader struct {
	r       *Rig
	th      int
	outcome string // val | err | nf | panic | valerr
	id      int
	w       int
}

func (l *rigLoader) produce(key int, kind string, old int) (int, error) {
	r := l.r
	lc := LoadCall{Kind: kind, Keys: []int{key}, Olds: []int{old}, Enter: r.now(), Thread: vsched.CurID()}
	r.inLoader.Add(1)
	vsched.EnvPoint()
	vsched.EnvPoint()
	r.inLoader.Add(-1)
	lc.Exit = r.now()
	v := mkVal(l.id+key, l.w)
	switch l.outcome {
	case "err":
		lc.Err = "loaderr"
	case "valerr":
		lc.Err = "loaderr"
		lc.Out = map[int]int{key: v}
	case "nf":
		lc.Err = "notfound"
	case "panic":
		lc.Err = "panic"
	default:
		lc.Out = map[int]int{key: v}
	}
	if !r.quiet {
		r.Loads = append(r.Loads, lc)
	}
	switch l.outcome {
	case "err":
		return 0, errLoad
	case "valerr":
		return v, errLoad
	case "nf":
		return 0, otter.ErrNotFound
	case "panic":
		panic("loader panic")
	}
	if !r.quiet {
		r.Installs[v] = key
	}
	return v, nil
}

func (l *rigLoader) Load(ctx context.Context, key int) (int, error) {
	return l.produce(key, "load", 0)
}

func (l *rigLoader) Reload(ctx context.Context, key int, old int) (int, error) {
	return l.produce(key, "reload", old)
}

// bulk loader: shape = full | partial (drops the largest asked key) | extra (adds key 9) | empty | err | errextra | errpartial | nf | panic
type rigBulkLoader struct {
	r     *Rig
	shape string
	id    int
	w     int
}

func (l *rigBulkLoader) produce(kind string, keys []int, olds []int) (map[int]int, error) {
	r := l.r
	ks := append([]int(nil), keys...)
	lc := LoadCall{Kind: kind, Keys: ks, Olds: append([]int(nil), olds...), Enter: r.now(), Thread: vsched.CurID()}
	r.inLoader.Add(1)
	vsched.EnvPoint()
	vsched.EnvPoint()
	r.inLoader.Add(-1)
	lc.Exit = r.now()
	defer func() {
		if !r.quiet {
			r.Loads = append(r.Loads, lc)
		}
	}()
	out := map[int]int{}
	sorted := append([]int(nil), keys...)
	sort.Ints(sorted)
	for _, k := range sorted {
		out[k] = mkVal(l.id+k, l.w)
	}
	switch l.shape {
	case "full":
	case "partial":
		if len(sorted) > 0 {
			delete(out, sorted[len(sorted)-1])
		}
	case "extra":
		out[9] = mkVal(l.id+9, l.w)
	case "extra=1", "extra=2", "extra=3":
		// volunteers a key that the caller may have asked for but that this call was not asked to load
		ek := atoi(l.shape[6:])
		if _, asked := out[ek]; !asked {
			out[ek] = mkVal(l.id+ek, l.w)
		}
	case "partialextra":
		if len(sorted) > 0 {
			delete(out, sorted[len(sorted)-1])
		}
		out[9] = mkVal(l.id+9, l.w)
	case "empty":
		out = map[int]int{}
	case "err":
		lc.Err = "loaderr"
		return nil, errLoad
	case "errextra", "errpartial":
		// a failing loader that also hands back a map (with a volunteered key / without the largest asked key):
		// the failure decides, nothing it returned may be cached
		if l.shape == "errextra" {
			out[9] = mkVal(l.id+9, l.w)
		} else if len(sorted) > 0 {
			delete(out, sorted[len(sorted)-1])
		}
		lc.Err = "loaderr"
		lc.Out = map[int]int{}
		for k, v := range out {
			lc.Out[k] = v
		}
		return out, errLoad
	case "nf":
		lc.Err = "notfound"
		return nil, otter.ErrNotFound
	case "panic":
		lc.Err = "panic"
		panic("bulk loader panic")
	default:
		panic("unknown bulk shape " + l.shape)
	}
	lc.Out = map[int]int{}
	for k, v := range out {
		if !r.quiet {
			r.Installs[v] = k
		}
		lc.Out[k] = v
	}
	return out, nil
}

func (l *rigBulkLoader) BulkLoad(ctx context.Context, keys []int) (map[int]int, error) {
	return l.produce("bulkload", keys, nil)
}

func (l *rigBulkLoader) BulkReload(ctx context.Context, keys []int, olds []int) (map[int]int, error) {
	return l.produce("bulkreload", keys, olds)
}

func atoi(s string) int {
	n, err := strconv.Atoi(s)
	if err != nil {
		panic("bad int in op: " + s)
	}
	return n
}

func atoi64(s string) int64 {
	n, err := strconv.ParseInt(s, 10, 64)
	if err != nil {
		panic("bad int64 in op: " + s)
	}
	return n
}

func keyList(s string) []int {
	var out []int
	for _, p := range strings.Split(s, ",") {
		if p != "" {
			out = append(out, atoi(p))
		}
	}
	return out
}

// Do executes one operation of the rig language on behalf of thread th
// (th = -1: set-up). Operation index within the thread makes written values
// unique and schedule-independent: id = (th+2)*1000 + index*10.
//
//	set k [w [ttl]]      Set
//	sia k [w [ttl]]      SetIfAbsent
//	get k / gete k / getq k
//	cw k [w] | ci k | cc k | cp k     Compute: write / invalidate / cancel / panic
//	cia k [w] | ciac k                ComputeIfAbsent: value / cancel
//	cipw k [w] | cipi k | cipc k      ComputeIfPresent: write / invalidate / cancel
//	inv k | invall
//	sea k d | sra k d
//	load k [val|err|nf|panic|valerr] [w]
//	bulk k1,k2 [full|partial|extra|partialextra|empty|err|nf|panic] [w]
//	refresh k [outcome] | bulkrefresh k1,k2 [shape]
//	adv d | cleanup | setmax n | getmax | wsize | esize
//	all | keys | values | coldest | hottest
//	runexec [n]
func (r *Rig) Do(th int, op string) (res OpResult) {
	var f []string
	cur0 := vsched.CurID()
	for _, tok := range strings.Fields(op) {
		switch {
		case strings.HasPrefix(tok, "ttl="):
			if !r.quiet {
				r.ttl[cur0] = atoi64(tok[4:])
			}
		case strings.HasPrefix(tok, "rttl="):
			if !r.quiet {
				r.rttl[cur0] = atoi64(tok[5:])
			}
		default:
			f = append(f, tok)
		}
	}
	res.Op = op
	var id int
	if r.quiet {
		// race pass: no shared bookkeeping, ids only need to be distinct
		id = int(r.quietID.Add(1)) * 10
		r = r.quietView()
	} else {
		idx := r.opIndex[th]
		r.opIndex[th] = idx + 1
		id = (th+2)*1000 + idx*10
	}
	arg := func(i int, def int) int {
		if len(f) > i {
			return atoi(f[i])
		}
		return def
	}
	cur := vsched.CurID()
	defer func() {
		delete(r.ttl, cur)
		delete(r.rttl, cur)
		if p := recover(); p != nil {
			res.Panic = fmt.Sprint(p)
			if e, ok := p.(error); ok {
				res.Panic = e.Error()
			}
			// panicError carries a stack trace with addresses: keep the first line only (observations must be reproducible)
			if i := strings.Index(res.Panic, "\n"); i >= 0 {
				res.Panic = res.Panic[:i]
			}
		}
	}()
	c := r.C
	ctx := context.Background()
	if r.Cfg.CancelledCtx {
		cctx, cancel := context.WithCancel(ctx)
		cancel()
		ctx = cctx
	}
	switch f[0] {
	case "set", "sia":
		k, w := arg(1, 0), arg(2, 1)
		if len(f) > 3 {
			r.ttl[cur] = atoi64(f[3])
		}
		v := mkVal(id, w)
		r.Installs[v] = k
		if f[0] == "set" {
			res.Val, res.OK = c.Set(k, v)
		} else {
			res.Val, res.OK = c.SetIfAbsent(k, v)
		}
		res.Int = v
	case "get":
		if len(f) > 2 {
			r.ttl[cur] = atoi64(f[2])
		}
		res.Val, res.OK = c.GetIfPresent(arg(1, 0))
	case "gete":
		e, ok := c.GetEntry(arg(1, 0))
		res.OK = ok
		if ok {
			res.Val = e.Value
			res.Entry = &e
		}
	case "getq":
		e, ok := c.GetEntryQuietly(arg(1, 0))
		res.OK = ok
		if ok {
			res.Val = e.Value
			res.Entry = &e
		}
	case "cw", "ci", "cc", "cp":
		k, w := arg(1, 0), arg(2, 1)
		v := mkVal(id, w)
		if f[0] == "cw" {
			r.Installs[v] = k
		}
		res.Val, res.OK = c.Compute(k, func(old int, found bool) (int, otter.ComputeOp) {
			res.Calls++
			res.SawVal, res.SawOK = old, found
			switch f[0] {
			case "cw":
				return v, otter.WriteOp
			case "ci":
				return 0, otter.InvalidateOp
			case "cp":
				panic("compute panic")
			}
			return 0, otter.CancelOp
		})
		res.Int = v
	case "cia", "ciac":
		k, w := arg(1, 0), arg(2, 1)
		v := mkVal(id, w)
		if f[0] == "cia" {
			r.Installs[v] = k
		}
		res.Val, res.OK = c.ComputeIfAbsent(k, func() (int, bool) {
			res.Calls++
			return v, f[0] == "ciac"
		})
		res.Int = v
	case "cipw", "cipi", "cipc":
		k, w := arg(1, 0), arg(2, 1)
		v := mkVal(id, w)
		if f[0] == "cipw" {
			r.Installs[v] = k
		}
		res.Val, res.OK = c.ComputeIfPresent(k, func(old int) (int, otter.ComputeOp) {
			res.Calls++
			res.SawVal, res.SawOK = old, true
			switch f[0] {
			case "cipw":
				return v, otter.WriteOp
			case "cipi":
				return 0, otter.InvalidateOp
			}
			return 0, otter.CancelOp
		})
		res.Int = v
	case "inv":
		res.Val, res.OK = c.Invalidate(arg(1, 0))
	case "invall":
		c.InvalidateAll()
	case "sea":
		c.SetExpiresAfter(arg(1, 0), time.Duration(atoi64(f[2])))
	case "sra":
		c.SetRefreshableAfter(arg(1, 0), time.Duration(atoi64(f[2])))
	case "load":
		outcome := "val"
		if len(f) > 2 {
			outcome = f[2]
		}
		l := &rigLoader{r: r, th: th, outcome: outcome, id: id, w: arg(3, 1)}
		v, err := c.Get(ctx, arg(1, 0), l)
		res.Val = v
		res.OK = err == nil
		if err != nil {
			res.Err = errName(err)
		}
	case "bulk":
		shape := "full"
		if len(f) > 2 {
			shape = f[2]
		}
		l := &rigBulkLoader{r: r, shape: shape, id: id, w: arg(3, 1)}
		m, err := c.BulkGet(ctx, keyList(f[1]), l)
		res.Map = m
		if m == nil {
			res.Map = map[int]int{}
		}
		res.OK = err == nil
		if err != nil {
			res.Err = errName(err)
		}
	case "refresh":
		outcome := "val"
		if len(f) > 2 {
			outcome = f[2]
		}
		l := &rigLoader{r: r, th: th, outcome: outcome, id: id, w: arg(3, 1)}
		ch := c.Refresh(ctx, arg(1, 0), l)
		if ch == nil {
			res.NilChan = true
		} else {
			r.refreshChans = append(r.refreshChans, refreshChan{th: th, op: op, ch: ch})
		}
	case "bulkrefresh":
		shape := "full"
		if len(f) > 2 {
			shape = f[2]
		}
		l := &rigBulkLoader{r: r, shape: shape, id: id, w: arg(3, 1)}
		ch := c.BulkRefresh(ctx, keyList(f[1]), l)
		if ch == nil {
			res.NilChan = true
		} else {
			r.bulkRefreshChans = append(r.bulkRefreshChans, bulkRefreshChan{th: th, op: op, ch: ch})
		}
	case "adv":
		vsched.EnvPoint()
		if d := atoi64(f[1]); d > 0 && atomic.LoadInt64(&r.Clock.now) <= math.MaxInt64-d {
			if vsched.FreeRunning {
				atomic.AddInt64(&r.Clock.now, d)
			} else {
				r.Clock.now += d // a clock never runs backwards: an advance that would overflow is ignored
			}
		}
	case "cleanup":
		c.CleanUp()
	case "setmax":
		c.SetMaximum(uint64(atoi64(f[1])))
	case "getmax":
		res.U64 = c.GetMaximum()
	case "wsize":
		res.U64 = c.WeightedSize()
	case "esize":
		res.Int = c.EstimatedSize()
	case "all":
		res.Map = map[int]int{}
		for k, v := range c.All() {
			if _, dup := res.Map[k]; dup {
				res.Err = fmt.Sprintf("All yielded key %d twice", k)
			}
			res.Map[k] = v
		}
	case "keys":
		res.List = []int{}
		for k := range c.Keys() {
			res.List = append(res.List, k)
		}
		sort.Ints(res.List)
	case "values":
		res.List = []int{}
		for v := range c.Values() {
			res.List = append(res.List, v)
		}
		sort.Ints(res.List)
	case "coldest", "hottest":
		res.List = []int{}
		it := c.Coldest()
		if f[0] == "hottest" {
			it = c.Hottest()
		}
		for e := range it {
			res.List = append(res.List, e.Key)
			res.Entries = append(res.Entries, e)
		}
	case "mkiter":
		// obtain an iterator now, range over it later ("useiter"): the sequence is evaluated when it is ranged
		switch f[1] {
		case "all":
			it := c.All()
			r.savedIter = func() []int {
				var ks []int
				for k := range it {
					ks = append(ks, k)
				}
				return ks
			}
		case "keys":
			it := c.Keys()
			r.savedIter = func() []int {
				var ks []int
				for k := range it {
					ks = append(ks, k)
				}
				return ks
			}
		default:
			it := c.Coldest()
			if f[1] == "hottest" {
				it = c.Hottest()
			}
			r.savedIter = func() []int {
				var ks []int
				for e := range it {
					ks = append(ks, e.Key)
				}
				return ks
			}
		}
	case "useiter":
		res.List = []int{}
		if r.savedIter != nil {
			res.List = append(res.List, r.savedIter()...)
			res.OK = true
		}
	case "all1", "keys1", "coldest1", "hottest1":
		// an iteration that the consumer abandons after the first element (the iterator must release what it holds)
		res.List = []int{}
		switch f[0] {
		case "all1":
			for k := range c.All() {
				res.List = append(res.List, k)
				break
			}
		case "keys1":
			for k := range c.Keys() {
				res.List = append(res.List, k)
				break
			}
		default:
			it := c.Coldest()
			if f[0] == "hottest1" {
				it = c.Hottest()
			}
			for e := range it {
				res.List = append(res.List, e.Key)
				break
			}
		}
	case "allinv":
		// the consumer mutates the cache inside the loop body: every yielded key is invalidated at once
		res.List = []int{}
		for k := range c.All() {
			res.List = append(res.List, k)
			c.Invalidate(k)
		}
	case "alladv", "keysadv", "coldestadv", "hottestadv":
		// an iteration whose consumer lets time pass: after the first element the clock advances by the given amount;
		// the elements are reported in the order they were yielded (the first one was judged at the old clock value)
		res.List = []int{}
		advanced := false
		tick := func() {
			if advanced {
				return
			}
			advanced = true
			if d := atoi64(f[1]); d > 0 && r.Clock.now <= math.MaxInt64-d {
				r.Clock.now += d
			}
		}
		switch f[0] {
		case "alladv":
			for k := range c.All() {
				res.List = append(res.List, k)
				tick()
			}
		case "keysadv":
			for k := range c.Keys() {
				res.List = append(res.List, k)
				tick()
			}
		default:
			it := c.Coldest()
			if f[0] == "hottestadv" {
				it = c.Hottest()
			}
			for e := range it {
				res.List = append(res.List, e.Key)
				tick()
			}
		}
		tick()
	case "runexec":
		res.Int = r.RunDeferred(arg(1, 0))
	case "awaitload":
		// gate: wait until some loader invocation is running (or another thread has finished all its operations)
		if vsched.Active() {
			vsched.Block(func() bool { return r.inLoader.Load() > 0 || r.threadsDone.Load() > 0 })
		} else if vsched.FreeRunning {
			for r.inLoader.Load() == 0 && r.threadsDone.Load() == 0 {
				runtime.Gosched()
			}
		}
	case "save":
		var buf bytes.Buffer
		if err := otter.SaveCacheTo(c, &buf); err != nil {
			res.Err = err.Error()
			break
		}
		r.Saved = buf.Bytes()
		res.List = []int{}
		dec := gob.NewDecoder(bytes.NewReader(r.Saved))
		var max uint64
		if err := dec.Decode(&max); err != nil {
			res.Err = "decode maximum: " + err.Error()
			break
		}
		res.U64 = max
		for {
			var e otter.Entry[int, int]
			if err := dec.Decode(&e); err != nil {
				break
			}
			res.List = append(res.List, e.Key)
			res.Entries = append(res.Entries, e)
		}
	default:
		panic("rig: unknown op " + op)
	}
	return res
}

type refreshChan struct {
	th int
	op string
	ch <-chan otter.RefreshResult[int, int]
}

type bulkRefreshChan struct {
	th int
	op string
	ch <-chan []otter.RefreshResult[int, int]
}

func errName(err error) string {
	switch {
	case errors.Is(err, otter.ErrNotFound):
		return "notfound"
	case errors.Is(err, errLoad):
		return "loaderr"
	}
	return "err:" + err.Error()
}
