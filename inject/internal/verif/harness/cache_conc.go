package harness

import (
	"encoding/json"
	"fmt"
	"sort"
	"strings"

	otter "github.com/maypok86/otter/v2"
	"github.com/maypok86/otter/v2/internal/verif/vsched"
)

// cache.conc: a generic concurrent cache scenario. Native set-up ops, 2-3
// threads of rig ops under the scheduler, then quiescence oracles selected by
// name: strand (C14), audit (C05), bound (C04), ledger (C06), lin (C02), stats (C20).

type concParams struct {
	Label   string     `json:"label"` // names the scenario class in violation signatures
	Cfg     CacheCfg   `json:"cfg"`
	Setup   []string   `json:"setup"`
	Threads [][]string `json:"threads"`
	Oracles []string   `json:"oracles"`
	Post    []string   `json:"post,omitempty"` // native ops after quiescence, before the oracles (e.g. adv + cleanup)
}

func init() {
	Register(&Scenario{Name: "cache.conc", Body: concBody})
}

type opRec struct {
	tid       int // scheduler thread id of the executing thread
	th        int
	op        string
	res       OpResult
	call, ret int64
	clock     int64 // clock value sampled by the op (last NowNano of its thread during the op)
}

func has(list []string, s string) bool {
	for _, x := range list {
		if x == s {
			return true
		}
	}
	return false
}

func concBody(x *Exec, raw json.RawMessage) {
	var p concParams
	if err := json.Unmarshal(raw, &p); err != nil {
		panic(err)
	}
	r := NewRig(p.Cfg, x)
	defer r.Close()
	var setupRecs []opRec
	for _, op := range p.Setup {
		res := r.Do(-1, op)
		setupRecs = append(setupRecs, opRec{th: -1, op: op, res: res})
		if res.Panic != "" {
			x.Fail("panic", "setup", "set-up op %q panicked: %s", op, res.Panic)
		}
	}
	r.RunDeferred(0)
	nAtomicSetup, nEventsSetup := len(r.Atomic), len(r.Events)
	_ = nAtomicSetup
	_ = nEventsSetup
	recs := make([][]opRec, len(p.Threads))
	var bodies []func()
	for ti, ops := range p.Threads {
		ti, ops := ti, ops
		bodies = append(bodies, func() {
			for _, op := range ops {
				c := x.Now()
				res := r.Do(ti, op)
				recs[ti] = append(recs[ti], opRec{tid: vsched.CurID(), th: ti, op: op, res: res, call: c, ret: x.Now()})
			}
			r.threadsDone.Add(1)
		})
	}
	g0, s0 := r.C.VerifTableResizes()
	if st := r.C.VerifStatus(); st.WithMaintenance && st.ReadBufferLen >= 4 {
		x.Count("read-buffer-saturated-at-start")
	}
	ok := x.Threads(bodies...)
	if g1, s1 := r.C.VerifTableResizes(); g1 > g0 {
		x.Count("table-grew")
	} else if s1 > s0 {
		x.Count("table-shrank")
	}
	for ti := range recs {
		for _, rc := range recs[ti] {
			x.Obsf("T%d %s", ti, rc.res.String())
		}
	}
	var evs []string
	for _, e := range r.Atomic[nAtomicSetup:] {
		evs = append(evs, e.String())
	}
	x.Obsf("atomic events: %s", strings.Join(evs, " "))
	if !ok {
		return
	}
	for ti := range recs {
		for _, rc := range recs[ti] {
			if rc.res.Panic != "" && !strings.Contains(rc.res.Panic, "loader panic") && !strings.Contains(rc.res.Panic, "compute panic") {
				x.Fail("panic", opName(rc.op), "operation %q panicked: %s", rc.op, rc.res.Panic)
			}
		}
	}
	c := r.C

	if has(p.Oracles, "strand") {
		st := c.VerifStatus()
		x.Obsf("status at quiescence: drain=%d wbuf=%d", st.DrainStatus, st.WriteBufferSize)
		if st.WithMaintenance {
			if st.WriteBufferSize != 0 {
				x.Fail("write-stranded", p.Label, "all cache calls returned and every spawned goroutine finished, but %d write events are still unprocessed (drain status %d): they wait for the next cache call", st.WriteBufferSize, st.DrainStatus)
			} else if st.DrainStatus != 0 {
				x.Fail("status-required-buffer-empty", p.Label, "drain status is %d with an empty write buffer after all goroutines finished", st.DrainStatus)
			}
			// pending notifications: every atomic removal must have been notified
			if !p.Cfg.NoHandlers {
				if miss := multisetDiff(r.Atomic, r.Events); len(miss) > 0 {
					x.Fail("notification-pending", p.Label, "removals reported atomically but not yet delivered to OnDeletion without a further cache call: %v", miss)
				}
			}
			if p.Cfg.MaxSize > 0 || p.Cfg.MaxWeight > 0 {
				var sum uint64
				n := 0
				for _, v := range c.All() {
					sum += weightOf(p.Cfg, v)
					n++
				}
				max := uint64(p.Cfg.MaxSize)
				if p.Cfg.MaxWeight > 0 {
					max = p.Cfg.MaxWeight
				}
				if m := lastSetMax(p, recs); m >= 0 {
					max = uint64(m)
				}
				if sum > max {
					x.Fail("bound-not-restored", p.Label, "total weight %d exceeds the maximum %d after all goroutines finished (no further cache call)", sum, max)
				}
			}
		}
	}

	// executor tasks that are still queued are pending maintenance
	r.RunDeferred(0)
	if has(p.Oracles, "bound") && (p.Cfg.MaxSize > 0 || p.Cfg.MaxWeight > 0) {
		// if the cache reports no outstanding maintenance the bound must hold already, without a forced CleanUp
		if st := c.VerifStatus(); st.DrainStatus == 0 && st.WriteBufferSize == 0 {
			x.Count("quiescent-without-cleanup")
			var sum uint64
			for _, v := range c.All() {
				sum += weightOf(p.Cfg, v)
			}
			if max := c.VerifMaximum(); sum > max {
				x.Fail("bound-exceeded", "no-maintenance-pending@"+p.Label, "total weight %d exceeds the maximum %d although every call returned and the cache reports no pending maintenance", sum, max)
			}
		}
	}

	// quiescence + pending maintenance
	for _, op := range p.Post {
		r.Do(-1, op)
	}
	r.RunDeferred(0)
	c.CleanUp()
	r.RunDeferred(0)

	contents := map[int]int{}
	for k, v := range c.All() {
		if _, dup := contents[k]; dup {
			x.Fail("iteration-duplicate", "All", "All() yields key %d twice at quiescence", k)
		}
		contents[k] = v
	}
	var ck []int
	for k := range contents {
		ck = append(ck, k)
	}
	sort.Ints(ck)
	var cs []string
	for _, k := range ck {
		cs = append(cs, fmt.Sprintf("%d=%d", k, contents[k]))
	}
	x.Obsf("contents: %s", strings.Join(cs, " "))

	if has(p.Oracles, "audit") {
		for _, f := range c.VerifAudit() {
			x.Fail(f.Kind, f.Subject+"@"+p.Label, "%s", f.Detail)
		}
		var sum uint64
		for _, v := range contents {
			sum += weightOf(p.Cfg, v)
		}
		if p.Cfg.MaxWeight > 0 {
			if ws := c.WeightedSize(); ws != sum {
				x.Fail("weighted-size-mismatch", "WeightedSize@"+p.Label, "WeightedSize() = %d but the entries present weigh %d", ws, sum)
			}
		}
		// an expired entry that awaits its sweep (less than a tick old) is legitimately counted by the estimate
		unswept := 0
		if p.Cfg.Expiry != "" {
			for _, n := range c.VerifRawTable() {
				if _, vis := c.GetEntryQuietly(n.Key); !vis {
					unswept++
				}
			}
		}
		if es := c.EstimatedSize(); es != len(contents)+unswept {
			x.Fail("estimated-size-mismatch", "EstimatedSize@"+p.Label, "EstimatedSize() = %d but iteration yields %d entries (+%d expired ones awaiting their sweep)", es, len(contents), unswept)
		}
		if p.Cfg.MaxSize > 0 || p.Cfg.MaxWeight > 0 {
			for _, name := range []string{"coldest", "hottest"} {
				res := r.Do(-1, name)
				seen := map[int]int{}
				for _, k := range res.List {
					seen[k]++
				}
				for k, n := range seen {
					if n > 1 {
						x.Fail("order-duplicate", name+"@"+p.Label, "%s yields key %d %d times", name, k, n)
					}
					if _, ok := contents[k]; !ok {
						x.Fail("order-extra", name+"@"+p.Label, "%s yields key %d which All() does not", name, k)
					}
				}
				for k := range contents {
					if seen[k] == 0 {
						x.Fail("order-missing", name+"@"+p.Label, "%s does not yield key %d which is present (All() yields it)", name, k)
					}
				}
			}
		}
	}

	if has(p.Oracles, "bound") && (p.Cfg.MaxSize > 0 || p.Cfg.MaxWeight > 0) {
		max := c.GetMaximum()
		var sum uint64
		for k, v := range contents {
			w := weightOf(p.Cfg, v)
			sum += w
			if w > max {
				x.Fail("oversized-retained", "entry@"+p.Label, "key %d with weight %d is retained although the maximum is %d", k, w, max)
			}
		}
		if sum > max {
			x.Fail("bound-exceeded", "maximum@"+p.Label, "total weight %d exceeds the maximum %d at quiescence after CleanUp", sum, max)
		}
		// the same through the reading operations (an entry that iteration skips but that lookups still return counts too)
		var probed uint64
		for k := 0; k < 32; k++ {
			if v, ok := c.GetIfPresent(k); ok {
				probed += weightOf(p.Cfg, v)
			}
		}
		if probed > max {
			x.Fail("bound-exceeded", "lookups@"+p.Label, "the entries that GetIfPresent returns weigh %d, the maximum is %d (at quiescence after CleanUp)", probed, max)
		}
		if p.Cfg.MaxSize > 0 && p.Cfg.Expiry == "" {
			if es := c.EstimatedSize(); uint64(es) > max {
				x.Fail("bound-exceeded", "EstimatedSize@"+p.Label, "EstimatedSize() = %d exceeds the maximum %d at quiescence after CleanUp", es, max)
			}
		}
		for _, e := range r.Events {
			if e.Cause == otter.CauseOverflow && weightOf(p.Cfg, e.Val) == 0 {
				x.Fail("zero-weight-evicted", "entry@"+p.Label, "zero-weight entry %d=%d was evicted for size", e.Key, e.Val)
			}
		}
	}

	if has(p.Oracles, "expired") || has(p.Oracles, "seq-equiv") {
		seqEquiv(x, p, recs)
	}
	if has(p.Oracles, "interleaving-equiv") {
		interleavingEquiv(x, p, recs, contents)
	}

	if has(p.Oracles, "singleflight") {
		tids := make([]int, len(recs))
		for ti := range recs {
			tids[ti] = ti
			if len(recs[ti]) > 0 {
				tids[ti] = recs[ti][0].tid
			}
		}
		checkSingleFlight(x, r, p, recs, tids)
		// a later Get loads afresh: no in-flight record may be left behind (audited) and the loader runs again
		if st := c.VerifStatus(); st.InFlightCalls > 0 {
			x.Fail("inflight-left", "singleflight@"+p.Label, "%d in-flight load records remain after every call returned", st.InFlightCalls)
		}
		for k := 1; k <= 3; k++ {
			if _, ok := contents[k]; ok {
				continue
			}
			before := len(r.Loads)
			res := r.Do(-1, fmt.Sprintf("load %d val", k))
			if len(r.Loads) != before+1 || !res.OK {
				x.Fail("stale-flight", "Get@"+p.Label, "a fresh Get(%d) after quiescence did not invoke the loader exactly once (calls %d, result %s)", k, len(r.Loads)-before, res.String())
			}
		}
	}
	if has(p.Oracles, "swept") && p.Cfg.Expiry != "" {
		// the post ops moved the clock more than one tick past every deadline and ran CleanUp
		if es := c.EstimatedSize(); es != len(contents) {
			x.Fail("timer-not-swept", "CleanUp@"+p.Label, "after CleanUp at clock %d EstimatedSize() = %d but only %d entries are live: an expired entry whose deadline lies more than one tick in the past was not swept", r.Clock.now, es, len(contents))
		}
		for v, k := range r.Installs {
			if cv, ok := contents[k]; ok && cv == v {
				continue
			}
			found := false
			for _, e := range r.Events {
				if e.Val == v {
					found = true
				}
			}
			installed := false
			for _, e := range r.Atomic {
				if e.Val == v {
					installed = true
				}
			}
			if installed && !found {
				x.Fail("event-missing", "OnDeletion@"+p.Label, "value %d of key %d was removed but its deletion event was not delivered after CleanUp", v, k)
			}
		}
		x.Count("swept-checked")
	}
	if has(p.Oracles, "refresh-readers") {
		// reads of fresh entries trigger nothing: the clock does not move in these scenarios, so a value that a
		// reload has just produced can never itself be due for a reload
		explicitRefresh := false
		for _, rs := range recs {
			for _, rc := range rs {
				if f := opFields(rc.op); f[0] == "refresh" || f[0] == "bulkrefresh" {
					explicitRefresh = true // an explicit Refresh reloads a fresh entry by design
				}
			}
		}
		for _, a := range r.Loads {
			for _, b := range r.Loads {
				if explicitRefresh || b.Kind != "reload" || len(b.Olds) == 0 || a.Enter >= b.Enter || len(a.Keys) == 0 || a.Keys[0] != b.Keys[0] {
					continue
				}
				if v, ok := a.Out[a.Keys[0]]; ok && a.Err == "" && v == b.Olds[0] {
					x.Fail("reload-of-fresh-entry", "Get@"+p.Label, "a reload of key %d was started with old value %d, which a reload had produced just before (the clock did not move): the swapped-in entry was observed with the stale refresh time", b.Keys[0], v)
				}
			}
		}
		for _, lc := range r.Loads {
			if lc.Kind != "reload" || len(lc.Olds) == 0 {
				continue
			}
			for _, rs := range recs {
				for _, rc := range rs {
					f := opFields(rc.op)
					if (f[0] != "get" && f[0] != "load") || atoi(f[1]) != lc.Keys[0] {
						continue
					}
					if rc.ret < lc.Exit && rc.call > lc.Enter {
						x.Count("reads-during-reload")
						// while the reload is in its loader readers keep getting a cached value, never the one being loaded
						// (the cached value need not be the flight's own old value: a reload that was handed to the
						// executor by an earlier stale read may run after another reload has already swapped the entry)
						if v, produced := lc.Out[lc.Keys[0]]; !rc.res.OK || produced && rc.res.Val == v {
							x.Fail("read-during-reload", opName(rc.op)+"@"+p.Label, "%q ran entirely while the reload of key %d was inside its loader and returned (%d,%v): readers must keep getting the cached value (flight's old value %d)", rc.op, lc.Keys[0], rc.res.Val, rc.res.OK, lc.Olds[0])
						}
					}
					// the read that triggered the reload returns the value cached at that moment
					if f[0] == "load" && rc.tid == lc.Thread && rc.call < lc.Enter && lc.Exit < rc.ret && (!rc.res.OK || rc.res.Val != lc.Olds[0]) {
						x.Fail("stale-read-returned-reloaded", opName(rc.op)+"@"+p.Label, "%q triggered the reload and returned (%d,%v) instead of the cached value %d", rc.op, rc.res.Val, rc.res.OK, lc.Olds[0])
					}
				}
			}
		}
	}
	if has(p.Oracles, "expired-during-load") {
		// the scenario's key 1 is expired and unswept for the whole run; only a completed load may make it visible
		for _, rs := range recs {
			for _, rc := range rs {
				f := opFields(rc.op)
				if len(f) < 2 || strings.Contains(f[1], ",") || atoi(f[1]) != 1 || f[0] == "load" || f[0] == "refresh" {
					continue
				}
				installed := false
				for _, lc := range r.Loads {
					if containsKey(lc.Keys, 1) && lc.Exit < rc.ret && lc.Err == "" {
						installed = true // the load's value may have been installed before this operation returned
					}
				}
				if installed || rc.res.Panic != "" {
					continue
				}
				x.Count("ops-on-expired-during-load")
				bad := false
				switch f[0] {
				case "get", "gete", "getq", "cc", "ciac", "cipc", "cipw", "cipi", "inv":
					bad = rc.res.OK
				case "set", "cw", "cia", "sia":
					bad = !rc.res.OK || rc.res.Val != rc.res.Int
				}
				if f[0] == "cc" || f[0] == "cw" || f[0] == "ci" {
					bad = bad || rc.res.SawOK
				}
				if bad {
					x.Fail("expired-observed", opName(rc.op)+"@"+p.Label, "%q ran on an expired-but-unswept key while a load of it was still in flight and returned %s: the expired entry was observed", rc.op, rc.res.String())
				}
			}
		}
	}
	if has(p.Oracles, "noclobber") {
		checkNoClobber(x, r, p, recs, contents)
	}
	if has(p.Oracles, "producer-order") {
		checkProducerOrder(x, r, p, recs)
	}
	if has(p.Oracles, "readbuf-drained") {
		// C17: every successfully recorded read is delivered once the cache is quiescent and maintenance runs
		c.CleanUp()
		r.RunDeferred(0)
		x.Count("readbuf-checks")
		if st := c.VerifStatus(); st.ReadBufferLen != 0 {
			x.Fail("reads-stuck-in-buffer", "readBuffer@"+p.Label, "after quiescence and CleanUp the read buffer still holds %d recorded reads: they are never delivered", st.ReadBufferLen)
		}
	}
	if has(p.Oracles, "volunteered") {
		checkVolunteered(x, r, p, recs, contents)
	}
	if has(p.Oracles, "lin") {
		checkLinearizable(x, r, p, setupRecs, recs, nAtomicSetup)
	}
	if has(p.Oracles, "published") {
		checkPublished(x, r, p, recs, nAtomicSetup)
	}
	if has(p.Oracles, "deadline-setters") {
		checkDeadlineSetters(x, r, p, recs)
	}
	if has(p.Oracles, "refresh-results") {
		// every explicit Refresh delivers exactly one result, and it is the outcome of a load of that key
		for _, rc := range r.refreshChans {
			k := atoi(opFields(rc.op)[1])
			select {
			case got := <-rc.ch:
				x.Count("refresh-results")
				explained := false
				for _, lc := range r.Loads {
					if !containsKey(lc.Keys, k) {
						continue
					}
					v, supplied := lc.Out[k]
					switch {
					case got.Err == nil && lc.Err == "" && supplied && got.Value == v:
						explained = true
					case got.Err != nil && errName(got.Err) == "notfound" && (lc.Err == "notfound" || lc.Err == "" && !supplied):
						explained = true
					case got.Err != nil && errName(got.Err) == "loaderr" && lc.Err == "loaderr":
						explained = true
					case got.Err != nil && lc.Err == "panic":
						explained = true
					}
				}
				if !explained {
					x.Fail("refresh-result-wrong", "Refresh@"+p.Label, "%q delivered {key %d, value %d, err %v}, which is not the outcome of any load of that key", rc.op, got.Key, got.Value, got.Err)
				}
				select {
				case <-rc.ch:
					x.Fail("refresh-channel", "Refresh@"+p.Label, "%q delivered a second result", rc.op)
				default:
				}
			default:
				x.Fail("refresh-channel", "Refresh@"+p.Label, "%q delivered no result although every goroutine finished", rc.op)
			}
		}
		r.refreshChans = nil
		for _, rc := range r.bulkRefreshChans {
			select {
			case got := <-rc.ch:
				for _, g := range got {
					x.Count("refresh-results")
					if why := refreshResultWrong(r, g.Key, g.Value, g.Err); why != "" {
						x.Fail("refresh-result-wrong", "BulkRefresh@"+p.Label, "%q delivered {key %d, value %d, err %v}: %s", rc.op, g.Key, g.Value, g.Err, why)
					}
				}
			default:
				x.Fail("refresh-channel", "BulkRefresh@"+p.Label, "%q delivered no result although every goroutine finished", rc.op)
			}
		}
		r.bulkRefreshChans = nil
		// a reload that succeeded and was not overtaken by a write is what the cache holds afterwards
		writers := false
		for _, rs := range recs {
			for _, rc := range rs {
				switch opFields(rc.op)[0] {
				case "set", "sia", "cw", "ci", "cia", "cipw", "cipi", "inv", "invall":
					writers = true
				}
			}
		}
		if !writers {
			produced := map[int][]int{}
			for _, lc := range r.Loads {
				if lc.Err != "" {
					continue
				}
				for k, v := range lc.Out {
					if containsKey(lc.Keys, k) {
						produced[k] = append(produced[k], v)
					}
				}
			}
			for k, vs := range produced {
				if cv, ok := contents[k]; ok && !containsInt(vs, cv) {
					x.Fail("reload-not-installed", "Refresh@"+p.Label, "loads of key %d succeeded with %v and nothing else wrote the key, yet the cache holds %d", k, vs, cv)
				}
			}
		}
	}
	if has(p.Oracles, "iter") {
		checkIteration(x, r, p, setupRecs, recs)
	}
	if has(p.Oracles, "stats") {
		checkStatsConc(x, r, p, recs)
	}

	if has(p.Oracles, "ledger") && !p.Cfg.NoHandlers {
		// present = physically in the table: an expired entry awaiting its sweep has not been removed (and reported) yet
		physical := map[int]int{}
		for _, n := range c.VerifRawTable() {
			physical[n.Key] = n.Value
		}
		checkLedger(x, r, p, append(append([]opRec{}, setupRecs...), flat(recs)...), physical)
	}

	// last (it changes the cache): everything that is still present is invalidated; afterwards every value ever written
	// has been reported exactly once to each handler (an entry whose node the policies have lost, or that was notified
	// early, shows here)
	if has(p.Oracles, "ledger") && !p.Cfg.NoHandlers {
		c.InvalidateAll()
		r.RunDeferred(0)
		c.CleanUp()
		r.RunDeferred(0)
		left := map[int]int{}
		for _, n := range c.VerifRawTable() {
			left[n.Key] = n.Value
		}
		if len(left) > 0 {
			x.Fail("invalidate-all-incomplete", "InvalidateAll@"+p.Label, "after InvalidateAll and CleanUp at quiescence the table still holds %v", left)
		}
		x.Count("ledger-after-invalidateall")
		q := p
		q.Label = p.Label + " (after a final InvalidateAll)"
		checkLedger(x, r, q, append(append(append([]opRec{}, setupRecs...), flat(recs)...), opRec{op: "invall"}), left)
	}

	// last (it changes the cache): the bound "including after the maximum is lowered at run time". The maximum is
	// lowered to 1 and then to 0: an entry that the eviction policy has lost track of (counted but in no queue, or in a
	// queue but not counted) survives the inserts above within the bound and shows only now.
	if has(p.Oracles, "bound") && (p.Cfg.MaxSize > 0 || p.Cfg.MaxWeight > 0) {
		for _, m := range []uint64{1, 0} {
			c.SetMaximum(m)
			r.RunDeferred(0)
			c.CleanUp()
			r.RunDeferred(0)
			var sum, probed uint64
			var left []string
			for k, v := range c.All() {
				sum += weightOf(p.Cfg, v)
				left = append(left, fmt.Sprintf("%d=%d", k, v))
			}
			for k := 0; k < 32; k++ {
				if v, ok := c.GetIfPresent(k); ok {
					probed += weightOf(p.Cfg, v)
				}
			}
			x.Count("lowered-maximum-checks")
			if sum > m || probed > m {
				sort.Strings(left)
				x.Fail("bound-exceeded", "lowered-maximum@"+p.Label, "after SetMaximum(%d) and CleanUp at quiescence the entries present weigh %d (lookups: %d): %v", m, sum, probed, left)
				break
			}
		}
	}
}

func flat(recs [][]opRec) []opRec {
	var out []opRec
	for _, rs := range recs {
		out = append(out, rs...)
	}
	return out
}

func opName(op string) string {
	f := strings.Fields(op)
	switch f[0] {
	case "set":
		return "Set"
	case "sia":
		return "SetIfAbsent"
	case "get":
		return "GetIfPresent"
	case "gete":
		return "GetEntry"
	case "getq":
		return "GetEntryQuietly"
	case "cw", "ci", "cc", "cp":
		return "Compute"
	case "cia", "ciac":
		return "ComputeIfAbsent"
	case "cipw", "cipi", "cipc":
		return "ComputeIfPresent"
	case "inv":
		return "Invalidate"
	case "invall":
		return "InvalidateAll"
	case "sea":
		return "SetExpiresAfter"
	case "sra":
		return "SetRefreshableAfter"
	case "load":
		return "Get"
	case "bulk":
		return "BulkGet"
	case "refresh":
		return "Refresh"
	case "bulkrefresh":
		return "BulkRefresh"
	case "all1", "keys1", "coldest1", "hottest1":
		return "Iteration(abandoned)"
	case "mkiter", "useiter":
		return "Iteration(saved)"
	case "all":
		return "All"
	case "keys":
		return "Keys"
	case "values":
		return "Values"
	case "coldest":
		return "Coldest"
	case "hottest":
		return "Hottest"
	}
	return f[0]
}

func weightOf(cfg CacheCfg, v int) uint64 {
	if cfg.MaxWeight > 0 {
		return uint64(valWeight(v)) << cfg.WeightShift
	}
	return 1
}

func lastSetMax(p concParams, recs [][]opRec) int64 {
	m := int64(-1)
	n := 0
	for _, rs := range recs {
		for _, rc := range rs {
			if strings.HasPrefix(rc.op, "setmax ") {
				m = atoi64(strings.Fields(rc.op)[1])
				n++
			}
		}
	}
	if n > 1 {
		return -1
	}
	return m
}

func multisetDiff(a, b []DelEvent) []string {
	cnt := map[string]int{}
	for _, e := range a {
		cnt[fmt.Sprintf("%d=%d", e.Key, e.Val)]++
	}
	for _, e := range b {
		cnt[fmt.Sprintf("%d=%d", e.Key, e.Val)]--
	}
	var out []string
	for k, n := range cnt {
		if n > 0 {
			out = append(out, k)
		}
	}
	sort.Strings(out)
	return out
}

// checkLedger: every value that was installed is either present or reported exactly once to each handler.
func checkLedger(x *Exec, r *Rig, p concParams, ops []opRec, contents map[int]int) {
	lbl := "@" + p.Label
	// which values were certainly installed, and how they are known to have been removed
	installed := map[int]int{}    // value -> key
	removedBy := map[int]string{} // value -> "replace" | "invalidate"
	for _, rc := range ops {
		f := strings.Fields(rc.op)
		if rc.res.Panic != "" {
			continue
		}
		switch f[0] {
		case "set":
			installed[rc.res.Int] = atoi(f[1])
			if !rc.res.OK {
				removedBy[rc.res.Val] = "replace"
			}
		case "sia":
			if rc.res.OK {
				installed[rc.res.Int] = atoi(f[1])
			}
		case "cw":
			installed[rc.res.Int] = atoi(f[1])
			if rc.res.SawOK {
				removedBy[rc.res.SawVal] = "replace"
			}
		case "ci":
			if rc.res.SawOK {
				removedBy[rc.res.SawVal] = "invalidate"
			}
		case "cia":
			if rc.res.Calls > 0 && rc.res.OK && rc.res.Val == rc.res.Int {
				installed[rc.res.Int] = atoi(f[1])
			}
		case "cipw":
			if rc.res.Calls > 0 {
				installed[rc.res.Int] = atoi(f[1])
				removedBy[rc.res.SawVal] = "replace"
			}
		case "cipi":
			if rc.res.Calls > 0 {
				removedBy[rc.res.SawVal] = "invalidate"
			}
		case "inv":
			if rc.res.OK {
				removedBy[rc.res.Val] = "invalidate"
			}
		}
	}
	// loader-produced values count as installed when they show up anywhere
	for _, v := range contents {
		if k, ok := r.Installs[v]; ok {
			installed[v] = k
		}
	}
	for _, e := range r.Atomic {
		if k, ok := r.Installs[e.Val]; ok && k == e.Key {
			installed[e.Val] = k
		}
	}
	present := map[int]bool{}
	for _, v := range contents {
		present[v] = true
	}
	atomicBy := map[int][]DelEvent{}
	for _, e := range r.Atomic {
		atomicBy[e.Val] = append(atomicBy[e.Val], e)
	}
	eventBy := map[int][]DelEvent{}
	for _, e := range r.Events {
		eventBy[e.Val] = append(eventBy[e.Val], e)
	}
	hasInvAll := false
	for _, rc := range ops {
		if strings.HasPrefix(rc.op, "invall") {
			hasInvAll = true
		}
	}
	var vals []int
	for v := range installed {
		vals = append(vals, v)
	}
	sort.Ints(vals)
	for _, v := range vals {
		k := installed[v]
		na, ne := len(atomicBy[v]), len(eventBy[v])
		switch {
		case present[v]:
			if na > 0 || ne > 0 {
				x.Fail("event-for-present-value", "handlers"+lbl, "value %d of key %d is still present but was reported removed (%d atomic, %d OnDeletion events)", v, k, na, ne)
			}
		default:
			if na == 0 {
				x.Fail("event-missing", "OnAtomicDeletion"+lbl, "value %d of key %d is no longer present but OnAtomicDeletion never reported it", v, k)
			}
			if ne == 0 {
				x.Fail("event-missing", "OnDeletion"+lbl, "value %d of key %d is no longer present but OnDeletion never reported it (after quiescence and CleanUp)", v, k)
			}
		}
		if na > 1 {
			x.Fail("event-duplicate", "OnAtomicDeletion"+lbl, "value %d of key %d reported %d times to OnAtomicDeletion", v, k, na)
		}
		if ne > 1 {
			x.Fail("event-duplicate", "OnDeletion"+lbl, "value %d of key %d reported %d times to OnDeletion", v, k, ne)
		}
		for _, e := range append(append([]DelEvent{}, atomicBy[v]...), eventBy[v]...) {
			if e.Key != k {
				x.Fail("event-wrong-key", "handlers"+lbl, "value %d belongs to key %d but was reported for key %d", v, k, e.Key)
			}
		}
		if na == 1 && ne == 1 && atomicBy[v][0].Cause != eventBy[v][0].Cause {
			x.Fail("wrong-cause", "handlers"+lbl, "value %d of key %d: OnAtomicDeletion says %s, OnDeletion says %s", v, k, atomicBy[v][0].Cause, eventBy[v][0].Cause)
		}
		// cause must match what happened
		for _, e := range atomicBy[v] {
			allowed := map[otter.DeletionCause]bool{}
			if p.Cfg.Expiry != "" {
				allowed[otter.CauseExpiration] = true // judged exactly by C07/C13 sequentially; here any expiry config admits it
			}
			switch removedBy[v] {
			case "replace":
				allowed[otter.CauseReplacement] = true
			case "invalidate":
				allowed[otter.CauseInvalidation] = true
			default:
				// automatic removal, InvalidateAll, load replacing it, or a not-found reload
				if p.Cfg.MaxSize > 0 || p.Cfg.MaxWeight > 0 {
					allowed[otter.CauseOverflow] = true
				}
				if hasInvAll {
					allowed[otter.CauseInvalidation] = true
				}
				if len(r.Loads) > 0 {
					allowed[otter.CauseReplacement] = true
					allowed[otter.CauseInvalidation] = true
				}
			}
			if !allowed[e.Cause] {
				x.Fail("wrong-cause", "OnAtomicDeletion"+lbl, "value %d of key %d was removed by %q but reported with cause %s", v, k, removedBy[v], e.Cause)
			}
		}
	}
	for v, es := range atomicBy {
		if _, ok := installed[v]; !ok {
			x.Fail("event-for-unknown-value", "OnAtomicDeletion"+lbl, "OnAtomicDeletion reported %v, a value that was never installed", es[0])
		}
	}
	for v, es := range eventBy {
		if _, ok := installed[v]; !ok {
			x.Fail("event-for-unknown-value", "OnDeletion"+lbl, "OnDeletion reported %v, a value that was never installed", es[0])
		}
	}
	// per key, atomic events follow install order: if op replaced a by b, a's event precedes b's
	succ := map[int]int{}
	for _, rc := range ops {
		if rc.res.Panic != "" {
			continue
		}
		f := strings.Fields(rc.op)
		switch f[0] {
		case "set":
			if !rc.res.OK {
				succ[rc.res.Val] = rc.res.Int
			}
		case "cw":
			if rc.res.SawOK {
				succ[rc.res.SawVal] = rc.res.Int
			}
		case "cipw":
			if rc.res.Calls > 0 {
				succ[rc.res.SawVal] = rc.res.Int
			}
		}
	}
	pos := map[int]int{}
	for i, e := range r.Atomic {
		if _, seen := pos[e.Val]; !seen {
			pos[e.Val] = i
		}
	}
	// values installed by explicit writes: those of the set-up were installed before every value of the run, and two
	// writes of one key issued by one thread were installed in program order
	type inst struct{ val, key, th, idx int }
	var insts []inst
	for i, rc := range ops {
		if rc.res.Panic != "" {
			continue
		}
		f := strings.Fields(rc.op)
		wrote := false
		switch f[0] {
		case "set", "cw":
			wrote = rc.res.Int != 0
		case "sia":
			wrote = rc.res.OK && rc.res.Int != 0
		case "cipw":
			wrote = rc.res.Calls > 0 && rc.res.Int != 0
		}
		if wrote {
			insts = append(insts, inst{rc.res.Int, atoi(f[1]), rc.th, i})
		}
	}
	for _, a := range insts {
		for _, b := range insts {
			if a.key != b.key || a.val == b.val {
				continue
			}
			before := a.th == -1 && b.th != -1 || a.th == b.th && a.idx < b.idx
			if !before {
				continue
			}
			pa, oka := pos[a.val]
			pb, okb := pos[b.val]
			if oka && okb && pb < pa {
				x.Fail("event-order", "OnAtomicDeletion"+lbl, "key %d: value %d was installed after %d but its removal was reported first", a.key, b.val, a.val)
			}
		}
	}
	for a, b := range succ {
		pa, oka := pos[a]
		pb, okb := pos[b]
		if oka && okb && pb < pa {
			x.Fail("event-order", "OnAtomicDeletion"+lbl, "key %d: value %d was installed after %d but its removal was reported first", installed[b], b, a)
		}
	}
}

// seqEquiv: in coarse mode every operation is atomic, so the concurrent run is one sequential
// history (ordered by call stamps). Replaying that history on a fresh cache through the E1 runner
// must (a) satisfy the reference model and (b) give the same results as the concurrent run.
func seqEquiv(x *Exec, p concParams, recs [][]opRec) {
	all := flat(recs)
	sort.Slice(all, func(i, j int) bool { return all[i].call < all[j].call })
	for i := 1; i < len(all); i++ {
		if all[i].call < all[i-1].ret {
			return // operations overlapped (fine-grained run): not a sequential history
		}
	}
	s := newSeqRunner(p.Cfg)
	defer s.close()
	for _, op := range p.Setup {
		s.apply(op)
	}
	s.disc = nil
	// value translation: concurrent id -> replay id
	tr := map[int]int{}
	idxOf := map[int]int{}
	for i, rc := range all {
		ci := (rc.th+2)*1000 + idxOf[rc.th]*10
		idxOf[rc.th]++
		ri := (-1+2)*1000 + (len(p.Setup)+i)*10
		for d := 0; d < 10; d++ {
			tr[ci+d] = ri + d
		}
	}
	conv := func(v int) int {
		if nid, ok := tr[valID(v)]; ok {
			return mkVal(nid, v&15)
		}
		return v
	}
	for i, rc := range all {
		s.step = i
		rr := s.apply(rc.op)
		got := rc.res
		if conv(got.Val) != rr.Val || got.OK != rr.OK || got.Err != rr.Err || (got.Panic != "") != (rr.Panic != "") {
			x.Fail("seq-divergence", opName(rc.op)+"@"+p.Label, "op %q returned (%d,%v,%q) in the concurrent run but (%d,%v,%q) when the same history is replayed sequentially", rc.op, conv(got.Val), got.OK, got.Err, rr.Val, rr.OK, rr.Err)
		}
	}
	for _, d := range s.disc {
		x.Fail(d.Kind, d.Subject, "sequential replay of the observed history: %s", d.Detail)
	}
	x.Count("seq-equiv-checked")
}

// interleavingEquiv (C03, fine-grained): the clock moves while an operation is in progress. Every operation samples
// the clock once, so what the threads observed (results and final visible contents) must be what SOME interleaving of
// the threads' operation sequences produces when executed sequentially. Scenarios are tiny (<= 4 operations).
func interleavingEquiv(x *Exec, p concParams, recs [][]opRec, contents map[int]int) {
	type pos struct{ th, idx int }
	var orders [][]pos
	var gen func(cur []pos, next []int)
	gen = func(cur []pos, next []int) {
		done := true
		for th := range recs {
			if next[th] < len(recs[th]) {
				done = false
				n2 := append([]int(nil), next...)
				n2[th]++
				gen(append(append([]pos(nil), cur...), pos{th, next[th]}), n2)
			}
		}
		if done {
			orders = append(orders, cur)
		}
	}
	gen(nil, make([]int, len(recs)))
	var tried []string
	for _, ord := range orders {
		s := newSeqRunner(p.Cfg)
		for _, op := range p.Setup {
			s.apply(op)
		}
		tr := map[int]int{}
		for i, ps := range ord {
			ci := (recs[ps.th][ps.idx].th+2)*1000 + ps.idx*10
			ri := (-1+2)*1000 + (len(p.Setup)+i)*10
			for d := 0; d < 10; d++ {
				tr[ci+d] = ri + d
			}
		}
		conv := func(v int) int {
			if nid, ok := tr[valID(v)]; ok {
				return mkVal(nid, v&15)
			}
			return v
		}
		same := true
		var desc []string
		for _, ps := range ord {
			rc := recs[ps.th][ps.idx]
			rr := s.apply(rc.op)
			desc = append(desc, fmt.Sprintf("%s->(%d,%v,%q)", rc.op, rr.Val, rr.OK, rr.Err))
			if conv(rc.res.Val) != rr.Val || rc.res.OK != rr.OK || rc.res.Err != rr.Err || (rc.res.Panic != "") != (rr.Panic != "") {
				same = false
			}
		}
		final := map[int]int{}
		for k, v := range s.r.C.All() {
			final[k] = v
		}
		if len(final) != len(contents) {
			same = false
		}
		for k, v := range contents {
			if fv, ok := final[k]; !ok || fv != conv(v) {
				same = false
			}
		}
		s.close()
		if same {
			x.Count("interleavings-explained")
			return
		}
		tried = append(tried, strings.Join(desc, " "))
	}
	var got []string
	for _, rs := range recs {
		for _, rc := range rs {
			got = append(got, fmt.Sprintf("%s->(%d,%v,%q)", rc.op, rc.res.Val, rc.res.OK, rc.res.Err))
		}
	}
	x.Fail("no-sequential-explanation", "clock@"+p.Label, "observed %v with final contents %v; no interleaving of the operations, run one at a time, gives that: %v", got, contents, tried)
}
