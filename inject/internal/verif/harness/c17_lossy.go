package harness

import (
	"encoding/json"
	"fmt"
	"sort"

	"github.com/maypok86/otter/v2/internal/generated/node"
	"github.com/maypok86/otter/v2/internal/lossy"
	"github.com/maypok86/otter/v2/internal/verif/vdet"
	"github.com/maypok86/otter/v2/internal/verif/vsched"
)

// C17: the lossy striped read buffer may drop but never corrupts.

type c17Params struct {
	MaxLen   int   `json:"max_len"`
	Adders   []int `json:"adders"`    // adds per adder thread
	Prefill  int   `json:"prefill"`   // native adds before the run (positions tail)
	PreDrain bool  `json:"pre_drain"` // native drain after prefill (positions head = tail)
	Prefill2 int   `json:"prefill2"`  // native adds after the pre-drain
	Drains   int   `json:"drains"`    // DrainTo calls of the consumer thread
	RandOpts int   `json:"rand_opts"` // >1: every Fastrand answer is an environment choice among this many values
	BufSize  int   `json:"buf_size"`  // ring size of the instrumented build (small variant: 4, native: 16)
	Doubles  int   `json:"doubles"`   // table doublings applied after the prefill (reachable through contention; see VerifDouble)
	Doublers int   `json:"doublers"`  // threads that double the table once during the run (the expansion step of a contended Add, under the busy flag)
	// after the run (quiescent), one native Add for every token index below 2*MaxLen: whatever table the contended
	// phase left behind (expanded by the code's own expansion step), every stripe it maps to must be drainable
	PostTokens bool `json:"post_tokens,omitempty"`
}

func init() {
	Register(&Scenario{Name: "c17.striped", Body: c17Body})
}

func c17Body(x *Exec, raw json.RawMessage) {
	var p c17Params
	if err := json.Unmarshal(raw, &p); err != nil {
		panic(err)
	}
	if p.RandOpts > 1 {
		vdet.RandFn = func() uint32 { return uint32(vsched.Choice(p.RandOpts)) }
	}
	nm := node.NewManager[int, int](node.Config{WithSize: true})
	s := lossy.NewStriped(p.MaxLen, nm)
	success := map[int]int{}
	delivered := map[int]int{}
	var order []int
	deliver := func(n node.Node[int, int]) {
		delivered[n.Key()]++
		order = append(order, n.Key())
	}
	id := 0
	nativeAdd := func(cnt int) {
		for i := 0; i < cnt; i++ {
			id++
			n := nm.Create(id, id, 0, 0, 1)
			st := s.Add(n)
			if st == lossy.Success {
				success[id]++
			}
		}
	}
	nativeAdd(p.Prefill)
	for i := 0; i < p.Doubles; i++ {
		s.VerifDouble()
	}
	if p.PreDrain {
		s.DrainTo(deliver)
	}
	nativeAdd(p.Prefill2)

	capacity := p.MaxLen * p.BufSize
	type addRec struct {
		key int
		st  lossy.Status
	}
	recs := make([][]addRec, len(p.Adders))
	var lens []int
	var bodies []func()
	for ai, cnt := range p.Adders {
		ai, cnt := ai, cnt
		bodies = append(bodies, func() {
			for i := 0; i < cnt; i++ {
				key := (ai+1)*100 + i
				n := nm.Create(key, key, 0, 0, 1)
				st := s.Add(n)
				recs[ai] = append(recs[ai], addRec{key, st})
			}
		})
	}
	for i := 0; i < p.Doublers; i++ {
		bodies = append(bodies, func() { s.VerifDouble() })
	}
	bodies = append(bodies, func() {
		for d := 0; d < p.Drains; d++ {
			lens = append(lens, s.Len())
			s.DrainTo(deliver)
		}
		lens = append(lens, s.Len())
	})
	ok := x.Threads(bodies...)
	for ai := range recs {
		for _, r := range recs[ai] {
			x.Obsf("add %d -> %d", r.key, r.st)
			switch r.st {
			case lossy.Success:
				success[r.key]++
				x.Count("success")
			case lossy.Full:
				x.Count("full")
			case lossy.Failed:
				x.Count("failed")
			default:
				x.Fail("bad-status", "Add", "Add returned status %d", r.st)
			}
		}
	}
	x.Obsf("concurrent deliveries %v lens %v", order, lens)
	if !ok {
		return
	}
	for _, l := range lens {
		if l > capacity || l < 0 {
			x.Fail("over-capacity", "Len", "Len() = %d exceeds the fixed capacity %d", l, capacity)
		}
	}
	if len(order) > 0 {
		x.Count("concurrent-deliveries")
	}
	if n := s.VerifStripes(); n > 1 && p.Doubles == 0 {
		x.Count("expanded")
		x.Obsf("stripes=%d", n)
	}
	gap := false
	for _, attached := range s.VerifLayout() {
		if !attached {
			gap = true
		} else if gap {
			x.Count("ring-behind-empty-stripe")
			break
		}
	}
	if bs := lossy.VerifBufferSize(); bs != p.BufSize {
		x.Fail("infra", "buffer-size", "instrumented build has ring size %d, scenario expects %d", bs, p.BufSize)
	}
	if p.PostTokens {
		for idx := 2*p.MaxLen - 1; idx >= 0; idx-- { // high token bits first: they only matter while the table is short
			idx := idx
			vdet.RandFn = func() uint32 { return uint32(idx) }
			id++
			n := nm.Create(id, id, 0, 0, 1)
			if st := s.Add(n); st == lossy.Success {
				success[id]++
				x.Count("post-success")
			}
		}
		if l := s.Len(); l > capacity {
			x.Fail("over-capacity", "Len", "Len() = %d exceeds the fixed capacity %d after the quiescent adds", l, capacity)
		}
	}
	// quiescent: a final drain must deliver every recorded entry exactly once in total
	if l := s.Len(); l > capacity {
		x.Fail("over-capacity", "Len", "Len() = %d exceeds the fixed capacity %d at quiescence", l, capacity)
	}
	s.DrainTo(deliver)
	var keys []int
	for k := range delivered {
		keys = append(keys, k)
	}
	sort.Ints(keys)
	for _, k := range keys {
		if success[k] == 0 {
			x.Fail("not-recorded", "DrainTo", "delivered entry %d that was never recorded with Success", k)
		} else if delivered[k] > 1 {
			x.Fail("duplicate", "DrainTo", "entry %d delivered %d times", k, delivered[k])
		}
	}
	for k := range success {
		if delivered[k] == 0 {
			x.Fail("lost-after-quiescence", "DrainTo", "entry %d was recorded with Success but never delivered, even by a drain at quiescence", k)
		}
	}
	if l := s.Len(); l != 0 {
		x.Fail("len-after-drain", "Len", "Len() = %d after a quiescent drain", l)
	}
	_ = fmt.Sprint
}
