package harness

import "fmt"

// Plans for the quiescence properties that share the concurrent cache scenarios:
// C05 (bookkeeping audit), C06 (event ledger), C04 (size bound).

type concScen struct {
	label   string
	cfg     CacheCfg
	setup   []string
	threads [][]string
	variant string
}

func concScenarios() []concScen {
	two := []string{"set 1", "set 2"}
	promoted := []string{"set 1", "set 2", "get 1", "get 1", "cleanup", "get 1", "cleanup"}
	var out []concScen
	for _, ex := range []string{"caller", "default"} {
		sz2 := CacheCfg{MaxSize: 2, Executor: ex}
		sz1 := CacheCfg{MaxSize: 1, Executor: ex}
		// S1 update(k) || insert(j) that evicts
		out = append(out, concScen{"update‖insert-evict/" + ex, sz2, two, [][]string{{"set 1"}, {"set 3"}}, "native"})
		out = append(out, concScen{"update‖insert-evict(cap1)/" + ex, sz1, []string{"set 1"}, [][]string{{"set 1"}, {"set 3"}}, "native"})
		// S2 Set(k) || Invalidate(k): k new / in window / promoted
		out = append(out, concScen{"insert‖invalidate/" + ex, sz2, []string{"set 2"}, [][]string{{"set 1"}, {"inv 1"}}, "native"})
		out = append(out, concScen{"update‖invalidate/" + ex, sz2, two, [][]string{{"set 1"}, {"inv 1"}}, "native"})
		out = append(out, concScen{"update‖invalidate(promoted)/" + ex, CacheCfg{MaxSize: 3, Executor: ex}, promoted, [][]string{{"set 1"}, {"inv 1"}}, "native"})
		// S4 InvalidateAll || Set
		out = append(out, concScen{"invalidateAll‖set/" + ex, sz2, two, [][]string{{"invall"}, {"set 1"}}, "native"})
		// replacement || replacement of one key
		out = append(out, concScen{"update‖update/" + ex, sz2, two, [][]string{{"set 1"}, {"set 1"}}, "native"})
		// compute forms
		out = append(out, concScen{"compute-write‖compute-invalidate/" + ex, sz2, two, [][]string{{"cw 1"}, {"ci 1"}}, "native"})
	}
	// S5 with expiry (timer wheel membership)
	for _, ex := range []string{"caller", "default"} {
		e := CacheCfg{MaxSize: 2, Expiry: "writing", TTL: 1000, Executor: ex, ClockStart: 1 << 40}
		out = append(out, concScen{"update‖insert-evict(expiry)/" + ex, e, []string{"set 1", "set 2"}, [][]string{{"set 1"}, {"set 3"}}, "native"})
		out = append(out, concScen{"update‖invalidate(expiry)/" + ex, e, []string{"set 1", "set 2"}, [][]string{{"set 1"}, {"inv 1"}}, "native"})
		out = append(out, concScen{"insert‖insert‖read(expiry-only)/" + ex, CacheCfg{Expiry: "accessing", TTL: 1000, Executor: ex, ClockStart: 1 << 40}, []string{"set 1"}, [][]string{{"set 2"}, {"set 1"}, {"get 1"}}, "native"})
	}
	// weighted: update that changes the weight || insert
	for _, ex := range []string{"caller", "default"} {
		w := CacheCfg{MaxWeight: 4, Executor: ex}
		out = append(out, concScen{"weight-update‖insert/" + ex, w, []string{"set 1 2", "set 2 1"}, [][]string{{"set 1 3"}, {"set 3 1"}}, "native"})
		out = append(out, concScen{"weight-update‖setmax/" + ex, w, []string{"set 1 2", "set 2 1"}, [][]string{{"set 1 1"}, {"setmax 2"}}, "native"})
	}
	// the maximum is lowered while only reads are in flight: no write event will trigger maintenance later
	for _, ex := range []string{"caller", "default"} {
		out = append(out, concScen{"read‖setmax/" + ex, CacheCfg{MaxSize: 2, Executor: ex}, two, [][]string{{"get 1"}, {"setmax 1"}}, "native"})
		out = append(out, concScen{"insert‖setmax/" + ex, CacheCfg{MaxSize: 3, Executor: ex}, two, [][]string{{"set 3"}, {"setmax 1"}}, "native"})
	}
	// a read whose access event reaches the policy after the node it names was replaced or removed
	for _, ex := range []string{"caller", "default"} {
		three := []string{"set 1", "set 2", "set 3"}
		out = append(out, concScen{"read‖update/" + ex, CacheCfg{MaxSize: 2, Executor: ex}, two, [][]string{{"get 1"}, {"set 1"}}, "native"})
		out = append(out, concScen{"read‖update(probation)/" + ex, CacheCfg{MaxSize: 4, Executor: ex}, three, [][]string{{"get 1"}, {"set 1"}}, "native"})
		out = append(out, concScen{"read‖update(probation-tail)/" + ex, CacheCfg{MaxSize: 4, Executor: ex}, three, [][]string{{"get 2"}, {"set 2"}}, "native"})
		out = append(out, concScen{"read‖update(promoted)/" + ex, CacheCfg{MaxSize: 3, Executor: ex}, promoted, [][]string{{"get 1"}, {"set 1"}}, "native"})
		out = append(out, concScen{"read‖invalidate(probation)/" + ex, CacheCfg{MaxSize: 4, Executor: ex}, three, [][]string{{"get 1"}, {"inv 1"}}, "native"})
	}
	// the clock crosses an entry's deadline while a write to that key is between its clock sample and its bucket lock
	for _, w := range []string{"sia 1", "set 1", "cw 1", "inv 1"} {
		e := CacheCfg{Expiry: "writing", TTL: 100, Executor: "caller", ClockStart: 1 << 40}
		out = append(out, concScen{"clock‖" + w + "(expiring)/caller", e, []string{"set 1", "set 2"}, [][]string{{"adv 100"}, {w}}, "native"})
	}
	// a reader that looked the entry up before its deadline extends it (access-based expiry, no bucket lock) while a
	// writer that started after the deadline is between the steps of its operation on the same key: the writer must
	// act on one decision (expired or not) throughout
	for _, w := range []string{"sia 1", "set 1", "inv 1", "cw 1", "cia 1", "cipw 1", "ci 1", "load 1 val", "bulk 1,2 full"} {
		acc := CacheCfg{Expiry: "accessing", TTL: 100, Executor: "caller", ClockStart: 1 << 40}
		if w == "set 1" || w == "sia 1" || w == "inv 1" || w == "cw 1" {
			// the same with a deadline setter instead of a reader (any expiry policy: SetExpiresAfter works without the lock too)
			wr := CacheCfg{Expiry: "writing", TTL: 100, Executor: "caller", ClockStart: 1 << 40}
			out = append(out, concScen{"lateSetter‖" + w, wr, []string{"set 1", "set 2", "adv 60"}, [][]string{{"sea 1 500"}, {"adv 50", w}}, "native"})
		}
		out = append(out, concScen{"lateReader‖" + w, acc, []string{"set 1", "set 2", "adv 60"}, [][]string{{"get 1"}, {"adv 50", w}}, "native"})
		accb := CacheCfg{MaxSize: 3, Expiry: "accessing", TTL: 100, Executor: "caller", ClockStart: 1 << 40}
		out = append(out, concScen{"lateReader‖" + w + "(bounded)", accb, []string{"set 1", "set 2", "adv 60"}, [][]string{{"get 1"}, {"adv 50", w}}, "native"})
	}
	// the same late actor against the expiry sweep: the wheel has selected the entry when the extension lands
	for _, late := range []string{"get 1", "sia 1", "sea 1 50000000000"} {
		big := CacheCfg{Expiry: "accessing", TTL: 10 * tickNs, Executor: "caller", ClockStart: 1 << 40}
		setup := []string{"set 1", "set 2", fmt.Sprintf("adv %d", 10*tickNs-10)}
		sweep := []string{fmt.Sprintf("adv %d", 2*tickNs), "cleanup"}
		out = append(out, concScen{"late " + late + "‖sweep", big, setup, [][]string{{late}, sweep}, "native"})
		bigb := big
		bigb.MaxSize = 3
		out = append(out, concScen{"late " + late + "‖sweep(bounded)", bigb, setup, [][]string{{late}, sweep}, "native"})
	}
	// an automatic removal (expiry sweep, size eviction) of a key's value while a writer installs two more values of that
	// key one after the other: the atomic handler must see the three removals in installation order
	{
		e := CacheCfg{Expiry: "writing", TTL: 10, Executor: "caller", ClockStart: 1 << 40}
		out = append(out, concScen{"sweep‖Set;Set(same key)", e, []string{"set 1", "set 2"}, [][]string{{fmt.Sprintf("adv %d", 3*tickNs), "cleanup"}, {"set 1", "set 1"}}, "native"})
		out = append(out, concScen{"evict‖Set;Set(same key)", CacheCfg{MaxSize: 1, Executor: "caller"}, []string{"set 1"}, [][]string{{"set 2"}, {"set 1", "set 1"}}, "native"})
	}
	// a load that is superseded by an explicit write and then reports not-found: the written entry stays, known to the
	// policies, and is not reported
	for _, w := range []string{"set 1", "cw 1", "sia 1"} {
		out = append(out, concScen{"missLoad(nf)‖" + w, CacheCfg{MaxSize: 3, Executor: "caller"}, []string{"set 2"}, [][]string{{"load 1 nf"}, {w}}, "native"})
		out = append(out, concScen{"missLoad(nf)‖" + w + "(expiring)", CacheCfg{Expiry: "writing", TTL: 1000, Executor: "caller", ClockStart: 1 << 40}, []string{"set 2"}, [][]string{{"load 1 nf"}, {w}}, "native"})
	}
	{
		ref := CacheCfg{MaxSize: 3, Refresh: "writing", RefreshTTL: 40, Executor: "caller", ClockStart: 1 << 40}
		out = append(out, concScen{"refresh(nf)‖set 1", ref, []string{"set 1", "set 2"}, [][]string{{"refresh 1 nf"}, {"set 1"}}, "native"})
		out = append(out, concScen{"bulk(partial)‖set 2", CacheCfg{MaxSize: 3, Executor: "caller"}, []string{"set 3"}, [][]string{{"bulk 1,2 partial"}, {"set 2"}}, "native"})
	}
	// S6 load install || eviction
	out = append(out, concScen{"load‖insert-evict/caller", CacheCfg{MaxSize: 2, Executor: "caller"}, two, [][]string{{"load 3"}, {"set 4"}}, "native"})
	return out
}

// pairScenarios: every unordered pair of operations from a small alphabet, one per thread, on a full two-entry cache
// (systematic rather than hand-picked: the misses of the seeded rounds were nearly all missing pairs).
func pairScenarios(thorough bool) []concScen {
	ops := []string{"set 1", "set 3", "inv 1", "get 1", "cw 1", "ci 1", "cia 3", "sia 1", "cipw 1", "invall", "setmax 1", "cleanup", "load 3 val", "get 2"}
	var out []concScen
	cfgs := []CacheCfg{{MaxSize: 2, Executor: "caller"}, {MaxSize: 2, Expiry: "accessing", TTL: 1000, Executor: "caller", ClockStart: 1 << 40}}
	if thorough {
		cfgs = append(cfgs, CacheCfg{MaxSize: 2, Executor: "default"}, CacheCfg{MaxSize: 2, Expiry: "writing", TTL: 1000, Refresh: "writing", RefreshTTL: 400, Executor: "caller", ClockStart: 1 << 40})
	}
	for _, cfg := range cfgs {
		for i, a := range ops {
			for _, b := range ops[i:] {
				if (a == "get 1" || a == "get 2" || a == "cleanup") && (b == "get 1" || b == "get 2" || b == "cleanup") {
					continue // two operations that write nothing
				}
				lbl := "pair:" + a + "‖" + b + "/" + cfg.Executor
				if cfg.Expiry != "" {
					lbl += "/expiring"
				}
				out = append(out, concScen{lbl, cfg, []string{"set 1", "set 2", "get 2"}, [][]string{{a}, {b}}, "native"})
			}
		}
	}
	// the same on a weighted cache: updates that change the weight, pinned (zero-weight) entries, a lowered maximum
	wops := []string{"set 1 3", "set 1 0", "set 3 2", "set 2 4", "inv 1", "get 1", "cw 1", "setmax 2", "invall", "cleanup", "load 3 val"}
	wcfgs := []CacheCfg{{MaxWeight: 4, Executor: "caller"}}
	if thorough {
		wcfgs = append(wcfgs, CacheCfg{MaxWeight: 4, Executor: "default"})
	}
	for _, cfg := range wcfgs {
		for i, a := range wops {
			for _, b := range wops[i:] {
				if (a == "get 1" || a == "cleanup") && (b == "get 1" || b == "cleanup") {
					continue
				}
				out = append(out, concScen{"wpair:" + a + "‖" + b + "/" + cfg.Executor, cfg, []string{"set 1 2", "set 2 1", "get 2"}, [][]string{{a}, {b}}, "native"})
			}
		}
	}
	return out
}

// tripleScenarios: every multiset of three operations from a reduced alphabet, one per thread, on a full two-entry cache:
// three write events of one key (update, update, delete; insert-evict in between) reach the policies in every order.
// seqPairScenarios: one thread issues two operations in a row against a single operation of another thread (a thread's
// second event overtakes, or is overtaken by, the other thread's only one).
func tripleScenarios(thorough bool) []concScen {
	ops := []string{"set 1", "inv 1", "cw 1", "sia 1", "set 3", "get 1", "invall", "ci 1"}
	cfgs := []CacheCfg{{MaxSize: 2, Executor: "caller"}}
	if thorough {
		cfgs = append(cfgs, CacheCfg{MaxSize: 2, Expiry: "accessing", TTL: 1000, Executor: "caller", ClockStart: 1 << 40}, CacheCfg{MaxSize: 2, Executor: "default"})
	}
	var out []concScen
	for _, cfg := range cfgs {
		for i, a := range ops {
			for j, b := range ops[i:] {
				for _, c := range ops[i+j:] {
					if a == "get 1" && b == "get 1" && c == "get 1" {
						continue
					}
					lbl := "triple:" + a + "‖" + b + "‖" + c + "/" + cfg.Executor
					if cfg.Expiry != "" {
						lbl += "/expiring"
					}
					out = append(out, concScen{lbl, cfg, []string{"set 1", "set 2", "get 2"}, [][]string{{a}, {b}, {c}}, "native"})
				}
			}
		}
	}
	return out
}

// tripleCore: the triples that get two preemptions in the quick tier too (three writes of one key, or two and the
// insert that evicts).
func tripleCore(threads [][]string) bool {
	for _, t := range threads {
		switch t[0] {
		case "set 1", "inv 1", "set 3":
		default:
			return false
		}
	}
	return true
}

// seqPairCore: the two-against-one scenarios that get two preemptions in the thorough tier (216 of 900).
func seqPairCore(threads [][]string) bool {
	for _, t := range threads {
		for _, o := range t {
			switch o {
			case "set 1", "inv 1", "cw 1", "set 3", "invall", "load 3 val":
			default:
				return false
			}
		}
	}
	return true
}

func seqPairScenarios(thorough bool) []concScen {
	ops := []string{"set 1", "inv 1", "cw 1", "sia 1", "set 3", "get 1", "invall", "ci 1", "setmax 1", "load 3 val"}
	cfgs := []CacheCfg{{MaxSize: 2, Executor: "caller"}}
	if thorough {
		cfgs = append(cfgs, CacheCfg{MaxSize: 2, Expiry: "accessing", TTL: 1000, Executor: "caller", ClockStart: 1 << 40}, CacheCfg{MaxSize: 2, Executor: "default"})
	}
	var out []concScen
	for _, cfg := range cfgs {
		for _, a := range ops {
			for _, b := range ops {
				if a == "get 1" && b == "get 1" {
					continue
				}
				for _, c := range ops {
					if c == "get 1" {
						continue
					}
					lbl := "seqpair:" + a + ";" + b + "‖" + c + "/" + cfg.Executor
					if cfg.Expiry != "" {
						lbl += "/expiring"
					}
					out = append(out, concScen{lbl, cfg, []string{"set 1", "set 2", "get 2"}, [][]string{{a, b}, {c}}, "native"})
				}
			}
		}
	}
	return out
}

func concPlan(oracles []string, pbQuick, pbThorough int, post ...string) func(thorough bool) []*Job {
	return func(thorough bool) []*Job {
		var jobs []*Job
		for _, s := range tripleScenarios(thorough) {
			p := concParams{Label: s.label, Cfg: s.cfg, Setup: s.setup, Threads: s.threads, Oracles: oracles, Post: post}
			ppb := 1
			if (thorough && s.cfg.Executor == "caller") || tripleCore(s.threads) {
				ppb = 2 // (spawned maintenance goroutines multiply the schedules: the default-executor triples keep one preemption)
			}
			jobs = append(jobs, &Job{Scenario: "cache.conc", Params: js(p), Variant: s.variant, PB: ppb, Shards: 1, BudgetS: 60})
		}
		for _, s := range seqPairScenarios(thorough) {
			if s.cfg.Executor == "default" && !seqPairCore(s.threads) {
				continue
			}
			p := concParams{Label: s.label, Cfg: s.cfg, Setup: s.setup, Threads: s.threads, Oracles: oracles, Post: post}
			ppb := 1
			if thorough && s.cfg.Executor == "caller" && s.cfg.Expiry == "" && seqPairCore(s.threads) {
				ppb = 2
			}
			jobs = append(jobs, &Job{Scenario: "cache.conc", Params: js(p), Variant: s.variant, PB: ppb, Shards: 1, BudgetS: 120})
		}
		for _, s := range pairScenarios(thorough) {
			p := concParams{Label: s.label, Cfg: s.cfg, Setup: s.setup, Threads: s.threads, Oracles: oracles, Post: post}
			ppb := 2
			if thorough && s.cfg.Executor == "caller" {
				ppb = 3
			}
			jobs = append(jobs, &Job{Scenario: "cache.conc", Params: js(p), Variant: s.variant, PB: ppb, Shards: 1, BudgetS: 30})
		}
		pb, budget := pbQuick, 60
		if thorough {
			pb, budget = pbThorough, 600
		}
		for _, s := range concScenarios() {
			p := concParams{Label: s.label, Cfg: s.cfg, Setup: s.setup, Threads: s.threads, Oracles: oracles, Post: post}
			npb := pb
			if len(s.threads) > 2 && npb > 1 && !thorough {
				npb = 1
			}
			jobs = append(jobs, &Job{Scenario: "cache.conc", Params: js(p), Variant: s.variant, PB: npb, Shards: 8, BudgetS: budget})
		}
		return jobs
	}
}

// c05Seq: every operation sequence up to a depth, the audit and the derived views checked in every reached state.
// The hill climber's sample period is shrunk (small-scope) so that window growth and shrinkage are within the depth;
// one job reaches a growth step the natural way (a sample period of 10) through a long prefix.
func c05Seq(thorough bool) []*Job {
	var jobs []*Job
	depth, budget := 5, 60
	if thorough {
		depth, budget = 7, 900
	}
	alpha := []string{"set 1 7", "set 2 1", "set 3 1", "set 4 1", "set 5 1", "set 6 2", "get 1", "get 2", "inv 4", "inv 2", "cleanup"}
	for _, ss := range []uint64{2, 3} {
		// maximum 16: the sketch (and with it the climber) starts once half the maximum is used; the step is 1
		cfg := CacheCfg{MaxWeight: 16, SampleSize: ss}
		jobs = append(jobs, seqJob(seqParams{Cfg: cfg, Alphabet: alpha, Audit: true}, depth, 8, budget, "states-audited"))
		pre := [][]string{
			{"set 1 7", "set 2 1", "set 3 1", "get 2", "cleanup"},
			{"set 1 7", "set 2 1", "set 3 1", "get 2", "set 4 1"},
			{"set 2 1", "set 1 7", "set 3 1", "get 2", "get 1", "cleanup"},
		}
		jobs = append(jobs, seqJob(seqParams{Cfg: cfg, Alphabet: alpha, Audit: true, Prefixes: pre}, depth-1, 8, budget, "states-audited", "window-grew"))
	}
	// natural sample period: 16+1 >= 32/2 initialises the sketch with one linked entry -> period 10
	nat := []string{"set 1 15", "set 2 1", "set 3 1", "get 2", "cleanup"}
	for i := 0; i < 9; i++ {
		nat = append(nat, "get 2")
	}
	nat = append(nat, "cleanup")
	for i := 0; i < 8; i++ {
		nat = append(nat, fmt.Sprintf("set %d 1", 4+i), fmt.Sprintf("inv %d", 4+i))
	}
	jobs = append(jobs, seqJob(seqParams{Cfg: CacheCfg{MaxWeight: 32}, Alphabet: []string{"set 12 1", "set 13 1", "set 1 15", "get 2", "get 1", "inv 1", "inv 2", "cleanup"}, Audit: true, Prefixes: [][]string{nat}}, 3, 4, budget, "states-audited", "window-grew"))
	// size-bounded and expiring configurations
	for _, cfg := range []CacheCfg{{MaxSize: 2}, {MaxSize: 3, Expiry: "writing", TTL: 100, ClockStart: 1 << 40}, {MaxWeight: 4, Expiry: "accessing", TTL: 100, ClockStart: 5}} {
		a := []string{"set 1", "set 2", "set 3", "set 4", "get 1", "get 2", "inv 1", "inv 3", "cleanup", "setmax 1", "setmax 3", "invall"}
		if cfg.MaxWeight > 0 {
			a = append(a, "set 1 2", "set 2 0", "set 3 4")
		}
		if cfg.Expiry != "" {
			a = append(a, "adv 60", "adv 100", fmt.Sprintf("adv %d", tickNs))
		}
		jobs = append(jobs, seqJob(seqParams{Cfg: cfg, Alphabet: a, Audit: true}, depth-1, 8, budget, "states-audited"))
	}
	// entries whose calculator declined a deadline (never linked into the timer wheel) and that get one later through the
	// per-entry setter or a read; and the reverse
	for _, cfg := range []CacheCfg{{Expiry: "custom", TTL: 100, ClockStart: 1 << 40}, {MaxSize: 3, Expiry: "custom", TTL: 100, ClockStart: 1 << 40}} {
		a := []string{"set 1 1 ttl=-1", "set 2 1 ttl=-1", "set 1", "set 3", "sea 1 30", "sea 2 30", fmt.Sprintf("sea 1 %d", tickNs+5), "get 1", "get 2", "inv 1", "cleanup", "adv 60", "adv 100", fmt.Sprintf("adv %d", 2*tickNs)}
		jobs = append(jobs, seqJob(seqParams{Cfg: cfg, Alphabet: a, Audit: true}, depth-1, 8, budget, "states-audited"))
	}
	return jobs
}

func init() {
	c05conc := concPlan([]string{"audit"}, 2, 3)
	plans["C05"] = func(thorough bool) []*Job { return append(c05conc(thorough), c05Seq(thorough)...) }
	plans["C06"] = concPlan([]string{"ledger"}, 2, 3)
	// C04: after the race, three more inserts: a weight total that a lost update left too low (or too high)
	// shows up as a cache that retains more than its maximum
	plans["C04"] = concPlan([]string{"bound"}, 2, 3, "set 7", "set 8", "set 9")
}
