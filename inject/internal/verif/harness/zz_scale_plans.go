package harness

import (
	"fmt"
	"strings"
)

// Scale jobs. A depth-bounded search from the empty cache never leaves the small-state corner: a table that has
// grown more than once, a frequency sketch that has aged, a hill climber that has adapted the window, timers in the
// upper wheel levels after the wheel has turned around, a write buffer that has moved on to a later chunk, totals
// beyond 2^32. These jobs reach such states through long deterministic workloads (every step of which is judged by
// the full oracle), cut the workload at regular points, and explore exhaustively (depth 1-2) from every cut.
// This file sorts last so that its init runs after all other plans are registered.

type workload struct {
	name    string
	cfg     CacheCfg
	variant string
	ops     []string
	every   int // cut points (0: only the complete workload)
	alpha   []string
	need    []string
}

func keyOps(format string, from, to int) []string {
	var out []string
	for k := from; k <= to; k++ {
		out = append(out, fmt.Sprintf(format, k))
	}
	return out
}

func cat(parts ...[]string) []string {
	var out []string
	for _, p := range parts {
		out = append(out, p...)
	}
	return out
}

func times(n int, ops ...string) []string {
	var out []string
	for i := 0; i < n; i++ {
		out = append(out, ops...)
	}
	return out
}

func cuts(ops []string, every int) [][]string {
	var out [][]string
	if every > 0 {
		for n := every; n < len(ops); n += every {
			out = append(out, append([]string(nil), ops[:n]...))
		}
	}
	return append(out, append([]string(nil), ops...))
}

// hotCold: reads that make keys lo..lo+hot-1 popular, then inserts of fresh keys that compete with them
func hotCold(lo, hot, rounds int, fresh *int, inserts int) []string {
	var out []string
	for r := 0; r < rounds; r++ {
		for k := lo; k < lo+hot; k++ {
			out = append(out, fmt.Sprintf("get %d", k))
		}
	}
	for i := 0; i < inserts; i++ {
		out = append(out, fmt.Sprintf("set %d", *fresh))
		*fresh++
	}
	return out
}

func scaleWorkloads(thorough bool) []workload {
	var ws []workload
	// --- table growth and shrinking (several doublings) ---
	tabAlpha := []string{"load 600 val", "bulk 601,602,30 full", "set 30", "get 30", "inv 30", "set 10", "get 10", "inv 10", "cw 31", "cia 500", "all", "keys", "invall", "cleanup"}
	for _, ins := range []string{"set %d", "load %d val", "cia %d"} {
		tag := strings.Fields(ins)[0]
		if !thorough && tag == "cia" {
			continue
		}
		for _, procs := range []int{1, 3} { // 3: the parallel table copy with an uneven fan-out (small-scope: one bucket per goroutine)
			ws = append(ws, workload{name: fmt.Sprintf("table-grow-shrink/small/%s/procs%d", tag, procs), cfg: CacheCfg{InitCap: 1, Procs: procs}, variant: "small", every: 8, alpha: tabAlpha, need: []string{"table-grew-twice", "table-shrank-after-growth"},
				ops: cat(keyOps(ins, 10, 33), keyOps("get %d", 10, 15), keyOps("inv %d", 10, 29), keyOps(ins, 40, 43), []string{"all"})})
		}
		ws = append(ws, workload{name: "table-grow-shrink/native/" + tag, cfg: CacheCfg{}, every: 160, alpha: tabAlpha, need: []string{"table-grew-twice", "table-shrank-after-growth"},
			ops: cat(keyOps(ins, 10, 409), []string{"all"}, keyOps("inv %d", 10, 406), []string{"all"}, keyOps(ins, 500, 520))})
	}
	// --- bounded by size: sketch aging, climber adaptation, admission between warm entries ---
	polAlpha := []string{"set 900", "set 10", "get 10", "get 17", "inv 10", "inv 12", "setmax 4", "setmax 16", "cleanup", "coldest", "hottest", "all"}
	for _, max := range []int{8, 16} {
		fresh := 100
		var ops []string
		ops = append(ops, keyOps("set %d", 10, 10+max-1)...)
		for period := 0; period < 3; period++ {
			ops = append(ops, hotCold(10, max/2, 2*10*max/max+6, &fresh, max)...) // > sample size requests per period
			ops = append(ops, "cleanup")
			ops = append(ops, hotCold(10+max/2, max/4, 12, &fresh, max/2)...)
		}
		need := []string{"overflow-evictions", "sketch-aged", "climber-sampled"}
		if max >= 16 {
			need = append(need, "window-adapted") // the climber's step is maximum/16: below 16 it rounds to no change
		}
		ws = append(ws, workload{name: fmt.Sprintf("policy-periods/size%d", max), cfg: CacheCfg{MaxSize: max}, every: 16, alpha: polAlpha, ops: ops, need: need})
	}
	{
		// maxima around 100 (window quota rounds to 1/2), long enough for one natural aging (sample size 10*max)
		for _, max := range []int{99, 100, 101} {
			if !thorough && max != 100 {
				continue
			}
			fresh := 1000
			ops := keyOps("set %d", 10, 10+max-1)
			ops = append(ops, hotCold(10, 75, 15, &fresh, 30)...) // 75 keys x 15 reads: more than 1000 counted increments
			ops = append(ops, "cleanup")
			for r := 0; r < 30; r++ { // a second period with a much lower hit rate: the climber reverses and grows the window
				ops = append(ops, hotCold(30, 15, 1, &fresh, 20)...)
			}
			ops = append(ops, hotCold(30, 40, 3, &fresh, 30)...)
			ws = append(ws, workload{name: fmt.Sprintf("policy-periods/size%d", max), cfg: CacheCfg{MaxSize: max}, every: 300, alpha: polAlpha, ops: ops, need: []string{"overflow-evictions", "sketch-aged", "climber-sampled", "window-adapted"}})
		}
	}
	// --- weights: totals beyond 2^32, and small maxima whose quotas round ---
	{
		var ops []string
		for k := 10; k < 70; k++ {
			ops = append(ops, fmt.Sprintf("set %d %d", k, 1+(k*7)%15))
			if k%5 == 0 {
				ops = append(ops, fmt.Sprintf("get %d", k-3), fmt.Sprintf("set %d %d", k-2, 1+(k*3)%15))
			}
		}
		wa := []string{"set 900 15", "set 900 1", "set 10 0", "set 20 15", "get 20", "inv 21", "setmax 1073741824", "cleanup", "coldest", "all"}
		ws = append(ws, workload{name: "weights/2^36", cfg: CacheCfg{MaxWeight: 1 << 36, WeightShift: 28}, every: 12, alpha: wa, ops: ops, need: []string{"overflow-evictions"}})
		ws = append(ws, workload{name: "weights/101", cfg: CacheCfg{MaxWeight: 101}, every: 12, alpha: []string{"set 900 15", "set 900 1", "set 10 0", "set 20 15", "get 20", "inv 21", "setmax 50", "cleanup", "coldest", "all"}, ops: ops, need: []string{"overflow-evictions"}})
	}
	// --- a thousand pinned (zero-weight) entries in front of the eviction cursor ---
	ws = append(ws, workload{name: "pinned-1000", cfg: CacheCfg{MaxWeight: 2}, alpha: []string{"setmax 1", "set 1 3", "set 3 1", "set 3 2", "get 1", "cleanup"},
		ops: cat(keyOps("set %d 0", 1000, 2000), []string{"set 1 1", "set 2 1"})})
	// --- timer wheel: every level, full turns, cascades ---
	for _, kind := range []string{"custom", "accessing"} {
		spans := []int64{tickNs, 64 * tickNs, 64 * 64 * tickNs, 64 * 64 * 32 * tickNs, 64 * 64 * 32 * 4 * tickNs}
		var ops []string
		next := 10
		plant := func() {
			for l, sp := range spans {
				for _, m := range []int64{1, 3} {
					ops = append(ops, fmt.Sprintf("set %d 1 ttl=%d", next, m*sp+int64(l)+5))
					next++
				}
				if l+1 < len(spans) {
					// almost a full turn of this level ahead: shares a bucket with the level's current tick
					ops = append(ops, fmt.Sprintf("set %d 1 ttl=%d", next, spans[l+1]-2), fmt.Sprintf("set %d 1 ttl=%d", next+1, spans[l+1]-sp/2))
					next += 2
				}
			}
		}
		plant()
		steps := []struct {
			n    int
			step int64
		}{{70, tickNs}, {66, 64 * tickNs}, {34, 64 * 64 * tickNs}, {6, 64 * 64 * 32 * tickNs}, {3, 64 * 64 * 32 * 4 * tickNs}}
		for _, st := range steps {
			for i := 0; i < st.n; i++ {
				ops = append(ops, fmt.Sprintf("adv %d", st.step+int64(i%3)))
				if i%2 == 1 {
					ops = append(ops, "cleanup")
				}
				if kind == "accessing" && i%7 == 3 {
					ops = append(ops, fmt.Sprintf("get %d", next-1-(i%5)))
				}
				if i == st.n/2 {
					plant()
				}
			}
			ops = append(ops, "cleanup")
		}
		wa := []string{"cleanup", "adv 1", fmt.Sprintf("adv %d", tickNs), fmt.Sprintf("adv %d", 64*tickNs), fmt.Sprintf("adv %d", 64*64*32*tickNs),
			fmt.Sprintf("set 900 1 ttl=%d", tickNs+1), fmt.Sprintf("set 900 1 ttl=%d", 64*64*tickNs+1), "get 30", "inv 31", fmt.Sprintf("sea 32 %d", 65*tickNs), "all"}
		ws = append(ws, workload{name: "wheel-turns/" + kind, cfg: CacheCfg{Expiry: kind, TTL: 100 * tickNs, ClockStart: 1<<40 + 12345}, every: 40, alpha: wa, ops: ops, need: []string{"cleanups-with-expiry", "wheel-upper-levels"}})
	}
	// --- write buffer: growth through every chunk size up to the full fallback (maintenance is queued, never run) ---
	{
		ops := keyOps("set %d", 10, 10+560)
		ops = append(ops, "runexec", "cleanup")
		ops = append(ops, keyOps("set %d", 600, 640)...)
		ops = append(ops, "runexec")
		wa := []string{"runexec", "set 900", "set 10", "get 570", "inv 570", "cleanup", "all", "coldest"}
		ws = append(ws, workload{name: "write-buffer-growth/deferred", cfg: CacheCfg{MaxSize: 8, Executor: "deferred"}, every: 140, alpha: wa, ops: ops, need: []string{"write-buffer-beyond-64"}})
	}
	// --- read buffer: many wrap-arounds ---
	for _, ex := range []string{"", "deferred"} {
		ops := keyOps("set %d", 10, 17)
		for i := 0; i < 150; i++ {
			ops = append(ops, fmt.Sprintf("get %d", 10+(i*3)%8))
			if i%40 == 39 {
				ops = append(ops, fmt.Sprintf("set %d", 100+i))
			}
		}
		wa := []string{"get 10", "set 900", "cleanup", "coldest", "inv 11"}
		if ex != "" {
			wa = append(wa, "runexec")
		}
		ws = append(ws, workload{name: "read-buffer-wraps/" + ex, cfg: CacheCfg{MaxSize: 8, Executor: ex}, every: 25, alpha: wa, ops: ops})
	}
	// --- loading cache with expiry and refresh over many periods ---
	{
		var ops []string
		for round := 0; round < 12; round++ {
			for k := 10; k < 16; k++ {
				switch (k + round) % 4 {
				case 0:
					ops = append(ops, fmt.Sprintf("load %d val", k))
				case 1:
					ops = append(ops, fmt.Sprintf("get %d", k))
				case 2:
					ops = append(ops, fmt.Sprintf("set %d", k))
				default:
					ops = append(ops, fmt.Sprintf("load %d %s", k, []string{"err", "nf", "val"}[round%3]))
				}
			}
			ops = append(ops, "bulk 10,11,12,20 partial", fmt.Sprintf("adv %d", []int64{30, 45, 70, 110}[round%4]))
			if round%3 == 2 {
				ops = append(ops, "cleanup", fmt.Sprintf("adv %d", tickNs+3))
			}
		}
		wa := []string{"load 10 val", "load 11 err", "get 12", "set 13", "inv 14", "adv 41", "adv 100", "cleanup", "bulk 10,15,21 full", "refresh 10 val", "all"}
		ws = append(ws, workload{name: "loading-periods", cfg: CacheCfg{MaxSize: 8, Expiry: "writing", TTL: 100, Refresh: "writing", RefreshTTL: 40, ClockStart: 1 << 40}, every: 9, alpha: wa, ops: ops})
	}
	// --- one bulk call over many keys (more than any internal batch size): stale, missing and fresh keys mixed ---
	for _, ex := range []string{"deferred", ""} {
		var ks []string
		for k := 10; k < 80; k++ {
			ks = append(ks, fmt.Sprint(k))
		}
		all := strings.Join(ks, ",")
		ops := cat(keyOps("set %d", 10, 59), []string{"adv 50"}, keyOps("set %d", 60, 69), []string{"bulk " + all + " full"})
		if ex != "" {
			ops = append(ops, "runexec")
		}
		ops = append(ops, "adv 50", "bulkrefresh "+all+" full")
		if ex != "" {
			ops = append(ops, "runexec")
		}
		ops = append(ops, "adv 50", "bulk "+all+" partial")
		wa := []string{"bulk " + all + " full", "bulkrefresh " + all + " full", "get 10", "load 11 val", "set 12", "inv 13", "adv 50", "all"}
		if ex != "" {
			wa = append(wa, "runexec")
		}
		ws = append(ws, workload{name: "bulk-70-keys/" + ex, cfg: CacheCfg{Refresh: "writing", RefreshTTL: 40, Executor: ex, ClockStart: 1 << 40}, every: 62, alpha: wa, ops: ops})
	}
	return ws
}

func scaleJobs(property string, thorough bool) []*Job {
	var jobs []*Job
	for _, w := range scaleWorkloads(thorough) {
		p := seqParams{Label: "scale:" + w.name, Cfg: w.cfg, Alphabet: w.alpha, Prefixes: cuts(w.ops, w.every)}
		need := []string{}
		use := true
		switch property {
		case "C01":
		case "C04":
			p.Kinds = []string{"bound-exceeded", "zero-weight-evicted"}
			use = w.cfg.MaxSize > 0 || w.cfg.MaxWeight > 0
		case "C05":
			p.Audit = true
			p.Kinds = []string{"no-seq-kinds"}
			use = (w.cfg.MaxSize > 0 || w.cfg.MaxWeight > 0 || w.cfg.Expiry != "") && w.cfg.Executor != "deferred"
			need = append(need, "states-audited")
		case "C06":
			p.Kinds = []string{"event-missing", "event-duplicate", "wrong-cause", "event-for-unknown-value", "unexpected-removal"}
		case "C07":
			p.Kinds = []string{"unjustified-overflow", "untruthful-expiration", "overflow-without-bound", "zero-weight-evicted", "unexpected-removal", "missing-entry"}
			use = w.cfg.Executor == ""
		case "C12":
			p.Kinds = []string{"deadline-mismatch", "deadline-wrapped", "refresh-deadline-mismatch", "invisible-before-deadline", "visible-at-deadline", "missing-entry", "hook-mismatch", "untruthful-expiration", "entry-mismatch"}
			use = w.cfg.Expiry != ""
		case "C13":
			p.Kinds = []string{"timer-not-swept", "untruthful-expiration", "missing-entry", "expiration-misreported"}
			use = w.cfg.Expiry != ""
		case "C08":
			p.Kinds = []string{"inflight-left", "loader-calls", "refresh-channel", "result-mismatch", "refresh-result-wrong"}
			use = w.name == "loading-periods" || strings.HasPrefix(w.name, "bulk-")
		case "C09":
			p.Kinds = []string{"phantom-value", "missing-entry", "result-mismatch", "unexpected-removal", "event-missing", "loader-calls"}
			use = w.name == "loading-periods"
		case "C10", "C11":
			use = w.name == "loading-periods" || strings.HasPrefix(w.name, "table-grow") || strings.HasPrefix(w.name, "bulk-")
		case "C19":
			p.Kinds = []string{"no-seq-kinds"}
			p.Persist = &persistParams{TargetMax: []int64{-1, 3, 50}}
			need = append(need, "round-trips")
		case "C20":
			p.Stats = true
		}
		if !use {
			continue
		}
		need = append(need, w.need...)
		depth, budget := 1, 60
		if thorough {
			depth, budget = 2, 900
		}
		j := seqJob(p, depth, 4, budget, need...)
		j.Variant = w.variant
		jobs = append(jobs, j)
	}
	return jobs
}

func init() {
	for _, prop := range []string{"C01", "C04", "C05", "C06", "C07", "C08", "C09", "C10", "C11", "C12", "C13", "C19", "C20"} {
		base, prop := plans[prop], prop
		plans[prop] = func(thorough bool) []*Job { return append(base(thorough), scaleJobs(prop, thorough)...) }
	}
}
