//go:build verif

package otter

// Stub of the optional eviction-layout hook.

type VerifEvictNode struct {
	Key    int
	Weight uint32
	Freq   int
	Queue  string
}

type VerifEviction struct {
	Key  int
	Freq uint64
}

func VerifEvictLayout(maximum, newMax uint64, nodes []VerifEvictNode) ([]VerifEviction, map[int]uint64, map[int]string, bool) {
	return nil, nil, nil, false
}

func VerifEvictLayoutRetire(maximum, newMax uint64, nodes []VerifEvictNode, retireKey, afterN int) ([]VerifEviction, map[int]uint64, map[int]string, bool) {
	return nil, nil, nil, false
}
