// Replacement for internal/xruntime/hasher.go injected by the verification overlay:
// hashing goes through the vdet seam so that the harness owns hash values.
package xruntime

import "github.com/maypok86/otter/v2/internal/verif/vdet"

type Hasher[T comparable] struct {
	seed uint64
}

func NewHasher[T comparable]() Hasher[T] {
	return Hasher[T]{
		seed: vdet.NextSeed(),
	}
}

func (h Hasher[T]) Hash(t T) uint64 {
	return vdet.Hash(h.seed, any(t))
}
