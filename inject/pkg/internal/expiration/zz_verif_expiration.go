//go:build verif

package expiration

import "github.com/maypok86/otter/v2/internal/generated/node"

// VerifWalk visits every node linked into the timer wheel with its level and
// slot, checking ring consistency. problems receives structural defects.
func (v *Variable[K, V]) VerifWalk(visit func(level, slot int, n node.Node[K, V]), problem func(msg string)) {
	for i := range v.wheel {
		for j := range v.wheel[i] {
			root := v.wheel[i][j]
			prev := root
			n := root.NextExp()
			steps := 0
			for !node.Equals(n, root) {
				if node.Equals(n, nil) {
					problem("timer wheel ring is broken: nil next pointer")
					break
				}
				if !node.Equals(n.PrevExp(), prev) {
					problem("timer wheel ring is inconsistent: prev pointer does not match")
				}
				visit(i, j, n)
				prev = n
				n = n.NextExp()
				steps++
				if steps > 100000 {
					problem("timer wheel ring does not terminate")
					break
				}
			}
			if !node.Equals(root.PrevExp(), prev) {
				problem("timer wheel ring is inconsistent: sentinel prev pointer does not match the tail")
			}
		}
	}
}

// VerifTime reports the wheel's current time.
func (v *Variable[K, V]) VerifTime() uint64 { return v.time }
