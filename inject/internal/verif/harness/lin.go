package harness

// A small Wing–Gong style linearizability checker for complete histories of
// at most 24 operations over a map with at most linKeys small integer keys.

const linKeys = 32

const absent = int64(-1 << 62)

// LinState is the abstract map: value per key index, `absent` if not present.
type LinState [linKeys]int64

func EmptyLinState() LinState {
	var s LinState
	for i := range s {
		s[i] = absent
	}
	return s
}

// LinOp is one completed operation with its real-time interval.
type LinOp struct {
	Thread    int
	Call, Ret int64
	Name      string
	// Apply returns the successor state and whether the recorded result is
	// legal in state s. Multiple successor states (nondeterministic spec)
	// are returned via the slice.
	Apply func(s LinState) []LinState
}

type linMemo struct {
	mask uint32
	st   LinState
}

// Linearizable reports whether ops can be totally ordered, respecting
// real-time order, so that every Apply succeeds starting from init.
// On failure it returns the longest linearizable prefix set size reached.
func Linearizable(ops []LinOp, init LinState) (bool, int) {
	n := len(ops)
	if n > 24 {
		panic("history too long for the linearizability checker")
	}
	seen := map[linMemo]struct{}{}
	best := 0
	var rec func(mask uint32, st LinState, cnt int) bool
	rec = func(mask uint32, st LinState, cnt int) bool {
		if cnt == n {
			return true
		}
		if cnt > best {
			best = cnt
		}
		key := linMemo{mask, st}
		if _, ok := seen[key]; ok {
			return false
		}
		seen[key] = struct{}{}
		// minimal return time among pending ops: an op may go next only if it was called before every pending op returned
		minRet := int64(1<<62 - 1)
		for i := 0; i < n; i++ {
			if mask&(1<<uint(i)) == 0 && ops[i].Ret < minRet {
				minRet = ops[i].Ret
			}
		}
		for i := 0; i < n; i++ {
			if mask&(1<<uint(i)) != 0 {
				continue
			}
			if ops[i].Call > minRet {
				continue
			}
			for _, ns := range ops[i].Apply(st) {
				if rec(mask|1<<uint(i), ns, cnt+1) {
					return true
				}
			}
		}
		return false
	}
	ok := rec(0, init, 0)
	return ok, best
}
