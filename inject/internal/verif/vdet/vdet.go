// Package vdet holds the determinism seams: hashing, randomness, parallelism
// and sorted map ranging. The harness installs functions here; defaults are
// deterministic.
package vdet

import (
	"math"
	"fmt"
	"iter"
	"sort"
	"sync/atomic"
)

// HashFn, when set, decides every table/sketch hash: seed identifies the
// hasher instance (creation order since Reset), key is the hashed key.
var HashFn func(seed uint64, key any) uint64

// RandFn, when set, answers xruntime.Fastrand.
var RandFn func() uint32

// Procs answers runtime.GOMAXPROCS(0) inside otter (parallel resize fan-out).
var Procs = 1

// ParallelismValue answers xruntime.Parallelism (buffer sizing at init).
const ParallelismValue = 4

var seedCounter atomic.Uint64

// Reset restores defaults and the hasher seed counter (call per execution).
func Reset() {
	seedCounter.Store(0)
	HashFn = nil
	RandFn = nil
	Procs = 1
}

// NextSeed numbers hasher instances in creation order.
func NextSeed() uint64 {
	return seedCounter.Add(1)
}

func mix(x uint64) uint64 {
	x += 0x9e3779b97f4a7c15
	x = (x ^ (x >> 30)) * 0xbf58476d1ce4e5b9
	x = (x ^ (x >> 27)) * 0x94d049bb133111eb
	return x ^ (x >> 31)
}

func keyBits(key any) uint64 {
	switch k := key.(type) {
	case int:
		return uint64(k)
	case int64:
		return uint64(k)
	case uint64:
		return k
	case uint32:
		return uint64(k)
	case int32:
		return uint64(k)
	case float64:
		if k == 0 {
			return 0 // +0.0 == -0.0: equal keys hash equally
		}
		return math.Float64bits(k)
	case float32:
		if k == 0 {
			return 0
		}
		return uint64(math.Float32bits(k))
	case string:
		var h uint64 = 14695981039346656037
		for i := 0; i < len(k); i++ {
			h = (h ^ uint64(k[i])) * 1099511628211
		}
		return h
	default:
		return keyBits(fmt.Sprint(key))
	}
}

// Hash is what the replaced xruntime.Hasher calls.
func Hash(seed uint64, key any) uint64 {
	if HashFn != nil {
		return HashFn(seed, key)
	}
	return mix(keyBits(key) ^ mix(seed))
}

// DefaultHash exposes the default mixing hash to harnesses.
func DefaultHash(seed uint64, key any) uint64 { return mix(keyBits(key) ^ mix(seed)) }

// Fastrand is what the replaced xruntime.Fastrand calls.
func Fastrand() uint32 {
	if RandFn != nil {
		return RandFn()
	}
	return 1
}

func less(a, b any) bool {
	switch x := a.(type) {
	case int:
		return x < b.(int)
	case int64:
		return x < b.(int64)
	case uint64:
		return x < b.(uint64)
	case string:
		return x < b.(string)
	}
	return fmt.Sprint(a) < fmt.Sprint(b)
}

// SortedMap ranges over m in ascending key order (Go's own order is random
// per iteration, which would break replay determinism).
func SortedMap[M ~map[K]V, K comparable, V any](m M) iter.Seq2[K, V] {
	return func(yield func(K, V) bool) {
		keys := make([]K, 0, len(m))
		for k := range m {
			keys = append(keys, k)
		}
		sort.Slice(keys, func(i, j int) bool { return less(any(keys[i]), any(keys[j])) })
		for _, k := range keys {
			v, ok := m[k]
			if !ok {
				continue
			}
			if !yield(k, v) {
				return
			}
		}
	}
}
