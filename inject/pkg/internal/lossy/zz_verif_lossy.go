//go:build verif

package lossy

// VerifStripes reports the current number of stripes (0 before first use).
func (s *Striped[K, V]) VerifStripes() int {
	bs := s.striped.Load()
	if bs == nil {
		return 0
	}
	return bs.len
}

// VerifBufferSize reports the ring capacity of this build.
func VerifBufferSize() int { return bufferSize }
