package harness

import (
	"fmt"
	"strings"
)

func concJob(label string, cfg CacheCfg, setup []string, threads [][]string, oracles []string, variant string, pb int, coarse bool, shards, budget int, need ...string) *Job {
	p := concParams{Label: label, Cfg: cfg, Setup: setup, Threads: threads, Oracles: oracles}
	return &Job{Scenario: "cache.conc", Params: js(p), Variant: variant, PB: pb, Coarse: coarse, Shards: shards, BudgetS: budget, Terminat: true, Need: need}
}

func init() {
	// ---- C08: single flight, every waiter terminates ----
	plans["C08"] = func(thorough bool) []*Job {
		var jobs []*Job
		or := []string{"singleflight", "audit"}
		plain := CacheCfg{}
		ref := CacheCfg{Refresh: "writing", RefreshTTL: 40, ClockStart: 1 << 40}
		type sc struct {
			label   string
			cfg     CacheCfg
			setup   []string
			threads [][]string
		}
		var scs []sc
		for _, o := range []string{"val", "err", "nf", "panic", "valerr"} {
			scs = append(scs, sc{"Get‖Get(" + o + ")", plain, nil, [][]string{{"load 1 " + o}, {"load 1 " + o}}})
		}
		scs = append(scs, sc{"Get‖Get‖Get", plain, nil, [][]string{{"load 1 val"}, {"load 1 err"}, {"load 1 val"}}})
		for _, s := range []string{"full", "partial", "extra", "err", "panic", "empty"} {
			scs = append(scs, sc{"Get‖BulkGet(" + s + ")", plain, nil, [][]string{{"load 1 val"}, {"bulk 1,2 " + s}}})
		}
		// the bulk loader volunteers the very key whose load by the other thread this BulkGet is waiting for
		scs = append(scs, sc{"Get‖BulkGet(extra=1)", plain, nil, [][]string{{"load 1 val"}, {"bulk 1,2 extra=1"}}})
		scs = append(scs, sc{"BulkGet‖BulkGet(extra=2)", plain, nil, [][]string{{"bulk 2,3 full"}, {"bulk 1,2 extra=2"}}})
		scs = append(scs, sc{"BulkGet‖BulkGet", plain, nil, [][]string{{"bulk 1,2 full"}, {"bulk 2,1 partial"}}})
		scs = append(scs, sc{"BulkGet‖BulkGet(overlap)", plain, []string{"set 3"}, [][]string{{"bulk 1,2,3 full"}, {"bulk 2,3,1 err"}}})
		scs = append(scs, sc{"Get‖Get‖Refresh", ref, nil, [][]string{{"load 1 val"}, {"load 1 val"}, {"refresh 1 val"}}})
		scs = append(scs, sc{"Refresh‖BulkRefresh", ref, []string{"set 1"}, [][]string{{"refresh 1 val"}, {"bulkrefresh 1,2 full"}}})
		scs = append(scs, sc{"Refresh‖Refresh(absent)", ref, nil, [][]string{{"refresh 1 err"}, {"refresh 1 val"}}})
		scs = append(scs, sc{"staleGet‖staleGet", ref, []string{"set 1", "adv 50"}, [][]string{{"load 1 val"}, {"load 1 val"}}})
		// operations that leave the key as it is (cancelled computes, reads, quiet reads, deadline setters) must not
		// disturb a flight: a later Get still joins it
		for _, noop := range []string{"cc 1", "ciac 1", "cipc 1", "get 1", "getq 1", "sea 1 50"} {
			scs = append(scs, sc{"Get‖" + noop + ";Get", plain, nil, [][]string{{"load 1 val"}, {noop, "load 1 val"}}})
		}
		scs = append(scs, sc{"BulkGet‖cc;Get", plain, nil, [][]string{{"bulk 1,2 full"}, {"cc 2", "load 2 val"}}})
		// a failed load whose record was legitimately dropped by a write must not disturb the next flight of the key
		for _, o := range []string{"err", "panic"} {
			scs = append(scs, sc{"Get(" + o + ")‖Invalidate;Get‖Get", plain, nil, [][]string{{"load 1 " + o}, {"inv 1", "load 1 val"}, {"load 1 val"}}})
		}
		for _, s := range scs {
			// coarse: only the loader's environment points are preemptible -> all interleavings at that granularity
			var need []string
			if !strings.Contains(s.label, "Refresh") {
				need = []string{"joined-flights"}
			}
			jobs = append(jobs, concJob(s.label, s.cfg, s.setup, s.threads, or, "native", 12, true, 4, 60, need...))
			pb, budget := 2, 60
			if thorough {
				pb, budget = 3, 600
			}
			jobs = append(jobs, concJob(s.label, s.cfg, s.setup, s.threads, or, "native", pb, false, 8, budget))
		}
		// asynchronous (default) executor for the refresh scenarios
		dref := ref
		dref.Executor = "default"
		jobs = append(jobs, concJob("Get‖Refresh/default", dref, nil, [][]string{{"load 1 val"}, {"refresh 1 val"}}, or, "native", 2, false, 8, 60))
		jobs = append(jobs, concJob("staleGet‖staleGet/default", dref, []string{"set 1", "adv 50"}, [][]string{{"load 1 val"}, {"load 1 val"}}, or, "native", 2, false, 8, 60))
		// two automatic bulk refreshes of one stale key handed to an asynchronous executor; one racing a write
		dsz := dref
		dsz.MaxSize = 4
		jobs = append(jobs, concJob("staleBulkGet‖staleBulkGet/default", dsz, []string{"set 1", "set 2", "adv 50"}, [][]string{{"bulk 1,2 full"}, {"bulk 1 full"}}, or, "native", 1, false, 8, 60))
		jobs = append(jobs, concJob("staleBulkGet‖Set/default", dsz, []string{"set 1", "set 2", "adv 50"}, [][]string{{"bulk 1,2 full"}, {"set 1"}}, or, "native", 1, false, 8, 60))
		return jobs
	}

	// ---- C09: a load never overwrites a newer write or invalidation ----
	plans["C09"] = func(thorough bool) []*Job {
		var jobs []*Job
		or := []string{"noclobber", "audit"}
		writers := []string{"set 1", "sia 1", "cw 1", "ci 1", "inv 1", "cia 1", "cipw 1"}
		pb, budget := 2, 90
		if thorough {
			pb, budget = 3, 600
		}
		for _, ex := range []string{"caller", "default"} {
			ref := CacheCfg{Refresh: "writing", RefreshTTL: 40, ClockStart: 1 << 40, Executor: ex}
			plain := CacheCfg{Executor: ex}
			for _, w := range writers {
				var need []string
				switch w {
				case "set 1", "cw 1", "ci 1", "inv 1":
					need = []string{"writes-during-flight"}
				}
				jobs = append(jobs, concJob("missLoad‖"+w+"/"+ex, plain, nil, [][]string{{"load 1 val"}, {w}}, or, "native", pb, false, 8, budget, need...))
				jobs = append(jobs, concJob("reload‖"+w+"/"+ex, ref, []string{"set 1", "adv 50"}, [][]string{{"load 1 val"}, {w}}, or, "native", pb, false, 8, budget))
				jobs = append(jobs, concJob("Refresh‖"+w+"/"+ex, ref, []string{"set 1"}, [][]string{{"refresh 1 val"}, {w}}, or, "native", pb, false, 8, budget))
				// loads that end without a value (not found, error) must not undo the write either
				for _, o := range []string{"nf", "err"} {
					if !thorough && ex == "default" && o == "err" {
						continue
					}
					jobs = append(jobs, concJob("missLoad("+o+")‖"+w+"/"+ex, plain, nil, [][]string{{"load 1 " + o}, {w}}, or, "native", pb, false, 8, budget))
					jobs = append(jobs, concJob("reload("+o+")‖"+w+"/"+ex, ref, []string{"set 1", "adv 50"}, [][]string{{"load 1 " + o}, {w}}, or, "native", pb, false, 8, budget))
					jobs = append(jobs, concJob("Refresh("+o+")‖"+w+"/"+ex, ref, []string{"set 1"}, [][]string{{"refresh 1 " + o}, {w}}, or, "native", pb, false, 8, budget))
				}
				if ex == "caller" {
					jobs = append(jobs, concJob("BulkGet‖"+w+"/"+ex, plain, nil, [][]string{{"bulk 1,2 full"}, {w}}, or, "native", pb, false, 8, budget))
					jobs = append(jobs, concJob("BulkGet(partial)‖"+w+"/"+ex, plain, nil, [][]string{{"bulk 2,1 partial"}, {w}}, or, "native", pb, false, 8, budget))
					jobs = append(jobs, concJob("BulkGet(empty)‖"+w+"/"+ex, plain, nil, [][]string{{"bulk 1,2 empty"}, {w}}, or, "native", pb, false, 8, budget))
				}
			}
			jobs = append(jobs, concJob("reload‖InvalidateAll/"+ex, ref, []string{"set 1", "adv 50"}, [][]string{{"load 1 val"}, {"invall"}}, or, "native", pb, false, 8, budget))
			// the write that superseded the load has itself expired (but is not swept) when the loader returns
			expc := CacheCfg{Expiry: "writing", TTL: 100, ClockStart: 1 << 40, Executor: ex}
			jobs = append(jobs, concJob("missLoad‖Set;expire/"+ex, expc, nil, [][]string{{"load 1 val"}, {"set 1", "adv 100"}}, or, "native", pb, false, 8, budget, "writes-during-flight"))
			expr := CacheCfg{Expiry: "writing", TTL: 100, Refresh: "writing", RefreshTTL: 40, ClockStart: 1 << 40, Executor: ex}
			jobs = append(jobs, concJob("reload‖Set;expire/"+ex, expr, []string{"set 1", "adv 50"}, [][]string{{"load 1 val"}, {"set 1", "adv 100"}}, or, "native", pb, false, 8, budget, "writes-during-flight"))
			// a manual Refresh of a fresh entry overtaken by InvalidateAll
			jobs = append(jobs, concJob("Refresh‖InvalidateAll/"+ex, ref, []string{"set 1"}, [][]string{{"refresh 1 val"}, {"invall"}}, or, "native", pb, false, 8, budget, "writes-during-flight"))
			bpb := pb
			if ex == "default" {
				bpb = pb - 1 // two keys, spawned maintenance: 2.7 M schedules at pb 2; the one-preemption window is what matters
			}
			jobs = append(jobs, concJob("BulkRefresh‖InvalidateAll/"+ex, ref, []string{"set 1", "set 2"}, [][]string{{"bulkrefresh 1,2 full"}, {"invall"}}, or, "native", bpb, false, 8, budget, "writes-during-flight"))
			jobs = append(jobs, concJob("missLoad‖Set;Invalidate/"+ex, plain, nil, [][]string{{"load 1 val"}, {"set 1", "inv 1"}}, or, "native", pb, false, 8, budget))
			// the same with a size bound (replaced nodes are retired: the sweep meets a dead node whose key holds a newer
			// value) and a second entry that the sweep visits first or last
			if ex == "caller" {
				refb := ref
				refb.MaxSize = 5
				for _, k := range []string{"1", "2"} {
					jobs = append(jobs, concJob("Refresh "+k+"‖InvalidateAll(bounded, two entries)/"+ex, refb, []string{"set 1", "set 2"}, [][]string{{"refresh " + k + " val"}, {"invall"}}, or, "native", pb, false, 8, budget, "writes-during-flight"))
					jobs = append(jobs, concJob("reload "+k+"‖InvalidateAll(bounded, two entries)/"+ex, refb, []string{"set 1", "set 2", "adv 50"}, [][]string{{"load " + k + " val"}, {"invall"}}, or, "native", pb, false, 8, budget))
				}
			}
		}
		// the same core races from non-initial states: after loads that ended in every way (extra keys volunteered by a
		// bulk loader, partial results, errors, not-found), after which the bookkeeping of the in-flight table must be
		// exactly what it is on a fresh cache
		for _, hist := range [][]string{{"bulk 5 extra"}, {"bulk 5,6 partial"}, {"load 6 err"}, {"load 6 nf", "bulk 5 extra", "inv 9"}} {
			for _, w := range []string{"set 1", "inv 1", "cw 1"} {
				lbl := "after[" + strings.Join(hist, ";") + "]"
				jobs = append(jobs, concJob("missLoad‖"+w+"/"+lbl, CacheCfg{Executor: "caller"}, hist, [][]string{{"load 1 val"}, {w}}, or, "native", pb, false, 4, budget))
				ref := CacheCfg{Refresh: "writing", RefreshTTL: 40, ClockStart: 1 << 40, Executor: "caller"}
				jobs = append(jobs, concJob("reload‖"+w+"/"+lbl, ref, append(append([]string{}, hist...), "set 1", "adv 50"), [][]string{{"load 1 val"}, {w}}, or, "native", pb, false, 4, budget))
			}
		}
		// many loads in flight at once: the in-flight table itself grows while the calls are registered; writes to
		// several of the keys during the load must still cancel their installs (coarse: operation granularity, unbounded)
		for _, v := range []struct {
			variant string
			n       int
		}{{"small", 24}, {"native", 140}} {
			var ks []string
			for k := 10; k < 10+v.n; k++ {
				ks = append(ks, fmt.Sprint(k))
			}
			bulk := "bulk " + strings.Join(ks, ",") + " full"
			writer := []string{"awaitload"}
			for i, k := range []int{10, 11, 13, 10 + v.n/2, 10 + v.n/2 + 1, 10 + v.n - 3, 10 + v.n - 1} {
				writer = append(writer, []string{"set %d", "inv %d", "cw %d"}[i%3])
				writer[i+1] = fmt.Sprintf(writer[i+1], k)
			}
			jobs = append(jobs, concJob("BulkGet(in-flight table grows)‖writers/"+v.variant, CacheCfg{Executor: "caller"}, nil, [][]string{{bulk}, writer}, or, v.variant, 12, true, 2, budget, "writes-during-flight"))
		}
		return jobs
	}

	// ---- C02: linearizability ----
	plans["C02"] = func(thorough bool) []*Job {
		var jobs []*Job
		or := []string{"lin"}
		ops := []string{"set 1", "sia 1", "cw 1", "ci 1", "cc 1", "cia 1", "cipw 1", "cipi 1", "inv 1"}
		pb, budget := 2, 60
		if thorough {
			pb, budget = 3, 600
		}
		// L1: unbounded cache, keys forced into one bucket with equal meta byte
		l1 := CacheCfg{Collide: true}
		for i, a := range ops {
			for j, b := range ops {
				if j < i {
					continue
				}
				for _, setup := range [][]string{nil, {"set 1"}} {
					if !thorough && setup == nil && (i+j)%2 == 1 {
						continue
					}
					lbl := fmt.Sprintf("L1:%s‖%s/%d", a, b, len(setup))
					jobs = append(jobs, concJob(lbl, l1, append([]string{"set 2"}, setup...), [][]string{{a, "get 1"}, {b, "get 2"}}, or, "native", pb, false, 4, budget, "histories-checked"))
				}
			}
		}
		jobs = append(jobs, concJob("L1:three-threads", l1, []string{"set 2"}, [][]string{{"set 1", "get 2"}, {"ci 1", "set 2"}, {"get 1", "get 2"}}, or, "native", pb, false, 16, budget, "histories-checked"))
		// L2: while the table grows / shrinks (small-scope table, harness hashes)
		spread := []uint64{hsh(0, 1), hsh(2, 2), hsh(4, 3), hsh(6, 4), hsh(0, 5), hsh(2, 6), hsh(1, 7), hsh(3, 8), hsh(1, 9), hsh(3, 10), hsh(5, 11)}
		l2 := CacheCfg{Hashes: spread, InitCap: 1} // InitialCapacity 1 -> the minimal table (2 root buckets in the small-scope build)
		fill8 := []string{"set 0", "set 1", "set 2", "set 3", "set 4", "set 6", "set 7", "set 8"}
		jobs = append(jobs, concJob("L2:grow", l2, fill8, [][]string{{"set 5", "get 0"}, {"set 0", "get 5"}, {"inv 1", "get 1"}}, or, "small", pb, false, 16, budget, "histories-checked", "table-grew"))
		// every writer reads its own key back: an update that lands in the abandoned table is then visible as a lost write
		jobs = append(jobs, concJob("L2:grow-readback", l2, fill8, [][]string{{"set 5", "get 5"}, {"set 0", "get 0"}, {"inv 1", "get 1"}}, or, "small", pb, false, 16, budget, "histories-checked", "table-grew"))
		jobs = append(jobs, concJob("L2:grow-compute-readback", l2, fill8, [][]string{{"cia 5", "get 5"}, {"cw 2", "get 2"}, {"sia 9", "get 9"}}, or, "small", pb, false, 16, budget, "histories-checked", "table-grew"))
		// InvalidateAll while the table grows (with and without deletion handlers: a cache without listeners and without
		// maintenance may take a different path): everything stored before it and not written again is gone afterwards
		for _, nh := range []bool{false, true} {
			cfg := l2
			cfg.NoHandlers = nh
			lbl := "L2:grow‖InvalidateAll"
			if nh {
				lbl += "(no handlers)"
			}
			jobs = append(jobs, concJob(lbl, cfg, fill8, [][]string{{"set 5", "get 5"}, {"invall", "get 0", "get 8"}}, or, "small", pb, false, 16, budget, "histories-checked", "table-grew"))
		}
		shrinkSetup := append(append([]string{}, fill8...), "set 5", "inv 0", "inv 1", "inv 2", "inv 3", "inv 4", "inv 6", "inv 7", "inv 8")
		jobs = append(jobs, concJob("L2:shrink", l2, shrinkSetup, [][]string{{"inv 5", "get 1"}, {"set 1", "get 5"}, {"cia 5", "get 1"}}, or, "small", pb, false, 16, budget, "histories-checked", "table-shrank"))
		jobs = append(jobs, concJob("L2:shrink-readback", l2, shrinkSetup, [][]string{{"inv 5", "get 5"}, {"set 1", "get 1"}, {"set 6", "get 6"}}, or, "small", pb, false, 16, budget, "histories-checked", "table-shrank"))
		// L3: the cache is evicting (automatic removals at the instant the atomic handler reports them)
		for _, ex := range []string{"caller", "default"} {
			l3 := CacheCfg{MaxSize: 2, Executor: ex}
			jobs = append(jobs, concJob("L3:evicting/"+ex, l3, []string{"set 1", "set 2"}, [][]string{{"set 3", "get 1"}, {"get 2", "set 1"}}, or, "native", pb, false, 16, budget, "histories-checked"))
			jobs = append(jobs, concJob("L3:evicting-cap1/"+ex, CacheCfg{MaxSize: 1, Executor: ex}, []string{"set 1"}, [][]string{{"set 2", "get 2"}, {"get 1", "cia 1"}}, or, "native", pb, false, 16, budget, "histories-checked"))
		}
		// L1 triples: every multiset of three operations on one key, one per thread, each followed by a read of that key
		// (three-party histories: a total order must explain all three results and the three read-backs)
		{
			tops := []string{"set 1", "sia 1", "cw 1", "ci 1", "cia 1", "cipw 1", "inv 1", "load 1 val"}
			if !thorough {
				tops = []string{"set 1", "sia 1", "cw 1", "ci 1", "inv 1", "load 1 val"}
			}
			tpb := 1
			if thorough {
				tpb = 2
			}
			for i, a := range tops {
				for j, b := range tops[i:] {
					for _, c := range tops[i+j:] {
						for _, setup := range [][]string{{"set 2"}, {"set 2", "set 1"}} {
							lbl := "L1:triple:" + a + "‖" + b + "‖" + c
							if len(setup) == 2 {
								lbl += "/present"
							}
							jobs = append(jobs, concJob(lbl, CacheCfg{}, setup, [][]string{{a, "get 1"}, {b, "get 1"}, {c, "get 1"}}, or, "native", tpb, false, 1, 2*budget, "histories-checked"))
						}
					}
				}
			}
		}
		// L3 matrix: all pairs of operations on a full, evicting cache (every writer reads a key back)
		evops := []string{"set 1", "set 3", "inv 1", "cw 1", "ci 2", "cia 3", "sia 3", "cipw 2", "load 3 val"}
		for i, a := range evops {
			for _, b := range evops[i:] {
				ka, kb := strings.Fields(a)[1], strings.Fields(b)[1]
				jobs = append(jobs, concJob("L3:pair:"+a+"‖"+b, CacheCfg{MaxSize: 2}, []string{"set 1", "set 2"}, [][]string{{a, "get " + kb}, {b, "get " + ka}}, or, "native", pb, false, 4, budget, "histories-checked"))
				if thorough {
					jobs = append(jobs, concJob("L3:pair:"+a+"‖"+b+"/default", CacheCfg{MaxSize: 2, Executor: "default"}, []string{"set 1", "set 2"}, [][]string{{a, "get " + kb}, {b, "get " + ka}}, or, "native", pb-1, false, 8, budget, "histories-checked"))
				}
			}
		}
		// L7: loader-backed Get with every loader outcome against each kind of writer of the same key (a load that ends
		// without a value must not undo a completed write: the write would be lost from every total order)
		for _, o := range []string{"val", "nf", "err"} {
			for _, w := range []string{"set 1", "sia 1", "cw 1", "inv 1"} {
				for _, setup := range [][]string{{"set 2"}, {"set 2", "set 1"}} {
					if !thorough && len(setup) == 2 && o == "err" {
						continue
					}
					jobs = append(jobs, concJob(fmt.Sprintf("L7:Get(%s)‖%s/%d", o, w, len(setup)), CacheCfg{}, setup, [][]string{{"load 1 " + o, "get 1"}, {w, "get 1"}}, or, "native", pb, false, 4, budget, "histories-checked"))
				}
			}
		}
		// L8: a loader-backed Get that joins a flight started by an explicit Refresh (of an absent key) or by another Get
		// returns only after the value is published: its own read-back finds it
		for _, ex := range []string{"caller", "default"} {
			rcfg := CacheCfg{Refresh: "writing", RefreshTTL: 40, ClockStart: 1 << 40, Executor: ex}
			jobs = append(jobs, concJob("L8:Refresh(absent)‖Get;read-back/"+ex, rcfg, []string{"set 2"}, [][]string{{"refresh 1 val"}, {"load 1 val", "get 1"}}, []string{"published"}, "native", pb, false, 8, budget, "published-checked"))
			jobs = append(jobs, concJob("L8:Get‖Get;read-back/"+ex, rcfg, []string{"set 2"}, [][]string{{"load 1 val", "get 1"}, {"load 1 val", "get 1"}}, []string{"published"}, "native", pb, false, 8, budget, "published-checked"))
			jobs = append(jobs, concJob("L8:BulkRefresh(absent)‖BulkGet;read-back/"+ex, rcfg, []string{"set 3"}, [][]string{{"bulkrefresh 1,2 full"}, {"load 1 val", "get 1"}}, []string{"published"}, "native", pb, false, 8, budget, "published-checked"))
		}
		// L6: InvalidateAll (one removal per key, each inside the call) against writers and readers of two keys
		for _, ex := range []string{"caller", "default"} {
			ws := []string{"set 1", "cia 3", "inv 1"}
			if thorough {
				ws = []string{"set 1", "sia 1", "cw 1", "cia 3", "inv 1", "cipw 1"}
			}
			for _, w := range ws {
				cfg := CacheCfg{Executor: ex}
				lpb := pb
				if ex == "default" {
					cfg.MaxSize = 5 // with maintenance: the fast path under the eviction lock
					lpb = pb - 1    // spawned maintenance goroutines multiply the schedules
				} else if w != "cia 3" {
					jobs = append(jobs, concJob("L6:InvalidateAll‖"+w+"/caller-bounded", CacheCfg{MaxSize: 5}, []string{"set 1", "set 2"}, [][]string{{"invall", "get 1"}, {w, "get " + strings.Fields(w)[1]}}, or, "native", pb, false, 8, budget, "histories-checked"))
				}
				jobs = append(jobs, concJob("L6:InvalidateAll‖"+w+"/"+ex, cfg, []string{"set 1", "set 2"}, [][]string{{"invall", "get 1"}, {w, "get " + strings.Fields(w)[1]}}, or, "native", lpb, false, 8, budget, "histories-checked"))
			}
		}
		// L5: loader-backed Get mixed with writes
		jobs = append(jobs, concJob("L5:Get‖Set‖Get", CacheCfg{}, nil, [][]string{{"load 1 val"}, {"set 1"}, {"get 1"}}, or, "native", pb, false, 16, budget, "histories-checked"))
		jobs = append(jobs, concJob("L5:Get‖Invalidate", CacheCfg{}, []string{"set 1"}, [][]string{{"load 1 val", "get 1"}, {"inv 1", "get 1"}}, or, "native", pb, false, 16, budget, "histories-checked"))
		return jobs
	}
}
