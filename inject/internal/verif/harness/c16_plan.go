package harness

func init() {
	plans["C16"] = func(thorough bool) []*Job {
		var jobs []*Job
		var cacheLevel []*Job
		// cache level: the write buffer (4 slots in the small-scope build) fills up while an iteration holds the eviction
		// lock; the writer that finds it full hands its own event to the maintenance it runs itself — after the queued ones
		{
			six := []string{"set 1", "set 1", "set 1", "set 1", "set 1", "set 1"}
			for _, holder := range []string{"coldest", "invall", "cleanup"} {
				p := concParams{Label: "cache:" + holder + "‖6 Sets(buffer-full)", Cfg: CacheCfg{MaxSize: 8, WriteMax: 4, Executor: "caller"}, Setup: []string{"set 1", "set 2"}, Threads: [][]string{{holder}, six}, Oracles: []string{"producer-order", "ledger", "audit"}}
				need := []string{"producer-order-pairs"}
				cacheLevel = append(cacheLevel, &Job{Scenario: "cache.conc", Params: js(p), Variant: "small", PB: 2, Shards: 8, BudgetS: 120, Terminat: true, Need: need})
			}
		}
		add := func(p c16Params, pb, shards, budget int) {
			jobs = append(jobs, &Job{Scenario: "c16.mpsc", Params: js(p), PB: pb, Shards: shards, BudgetS: budget, Terminat: true})
		}
		// starvation deviation: a producer that waits for the producer linking the next chunk keeps being scheduled
		// (up to 2600 yields, i.e. about 1300 re-reads of two words) while that producer is not: waits that give up after a bounded number of re-reads
		// then refuse an offer although the queue is far from full
		for _, pre := range []int{1, 2} {
			jobs = append(jobs, &Job{Scenario: "c16.mpsc", Params: js(c16Params{Init: 2, Max: 8, Producers: []int{1, 1}, Preload: pre}), PB: 2, Shards: 8, BudgetS: 120, Terminat: true, Starve: 2600})
		}
		// maximum capacities that are not powers of two (the queue rounds them up): filled to the rounded maximum
		// and beyond while the consumer lags
		add(c16Params{Init: 2, Max: 6, Producers: []int{2, 1}, Preload: 9}, 1, 4, 60)
		add(c16Params{Init: 4, Max: 12, Producers: []int{1, 1}, Preload: 17}, 1, 4, 60)
		add(c16Params{Init: 4, Max: 5, Producers: []int{2}, Preload: 7}, 1, 4, 60)
		if !thorough {
			// growth 2 -> 4 with one chunk switch, 2 producers
			add(c16Params{Init: 2, Max: 4, Producers: []int{2, 2}}, 2, 4, 60)
			// full boundary: 3 of 4 slots preloaded, producers race for the last one
			add(c16Params{Init: 2, Max: 4, Producers: []int{1, 1}, Preload: 3}, 3, 4, 60)
			// indices pre-positioned so that the run wraps the initial chunk
			add(c16Params{Init: 2, Max: 8, Producers: []int{2, 1}, Prefill: 1, Preload: 1}, 2, 4, 60)
			add(c16Params{Init: 4, Max: 4, Producers: []int{3, 2}, Prefill: 3}, 2, 4, 60)
			// the consumer follows the link into the bigger chunk while the producers push a whole chunk's worth:
			// the slot it has just taken is reused as soon as it publishes its index
			add(c16Params{Init: 2, Max: 4, Producers: []int{2, 2}, Preload: 3}, 2, 4, 60)
			add(c16Params{Init: 2, Max: 4, Producers: []int{4}, Preload: 3}, 2, 4, 60)
			add(c16Params{Init: 2, Max: 8, Producers: []int{4, 4}, Preload: 3}, 1, 4, 60)
			return append(jobs, cacheLevel...)
		}
		add(c16Params{Init: 2, Max: 4, Producers: []int{2, 2}}, 4, 16, 300)
		add(c16Params{Init: 2, Max: 4, Producers: []int{1, 1}, Preload: 3}, 5, 16, 300)
		add(c16Params{Init: 2, Max: 8, Producers: []int{3, 2}, Prefill: 1, Preload: 1}, 3, 16, 300)
		add(c16Params{Init: 2, Max: 8, Producers: []int{2, 2, 2}}, 3, 16, 300)
		add(c16Params{Init: 4, Max: 4, Producers: []int{3, 2}, Prefill: 3}, 4, 16, 300)
		add(c16Params{Init: 2, Max: 4, Producers: []int{2, 1, 1}, Preload: 2}, 3, 16, 300)
		add(c16Params{Init: 4, Max: 16, Producers: []int{3, 3}, Preload: 3}, 3, 16, 300)
		add(c16Params{Init: 2, Max: 4, Producers: []int{2, 2}, Preload: 3}, 4, 16, 300)
		add(c16Params{Init: 2, Max: 4, Producers: []int{4}, Preload: 3}, 5, 16, 300)
		add(c16Params{Init: 2, Max: 8, Producers: []int{4, 4}, Preload: 3}, 2, 16, 300)
		add(c16Params{Init: 4, Max: 8, Producers: []int{8}, Preload: 5}, 3, 16, 300)
		return append(jobs, cacheLevel...)
	}
}
