// Package vsched is a controlled (cooperative, baton-passing) scheduler for
// stateless model checking of the real otter code. Exactly one managed
// goroutine runs at a time; every shimmed synchronisation operation calls
// Point() before acting, and the scheduler decides, from a recorded choice
// prefix followed by the canonical default (choice 0), which thread goes next.
//
// The package knows nothing about otter. It is injected by overlay under
// github.com/maypok86/otter/v2/internal/verif/vsched.
package vsched

import (
	"fmt"
	"runtime"
	"strings"
	"sync"
)

// Kinds of choice points, as recorded in a trace.
const (
	KindNormal uint8 = iota // running thread still enabled: option 0 continues it, others preempt (cost 1)
	KindYield               // running thread is spinning/yielding: option 0 is the round-robin successor (free); any other option, continuing the yielder being the last, costs 1
	KindForced              // running thread blocked or finished: all options are free
	KindEnv                 // environment choice (harness-defined answers): option 0 free, others cost 1 env deviation
)

// Outcome of one execution.
const (
	OutcomeOK       = "ok"
	OutcomeDeadlock = "deadlock"
	OutcomeLivelock = "livelock"
	OutcomeHorizon  = "horizon"
)

// ChoicePoint is one recorded decision.
type ChoicePoint struct {
	N      uint8 // number of options
	Kind   uint8
	Chosen uint8
}

// Cost returns (preemptions, envDeviations) of taking option alt at this point.
func (p ChoicePoint) Cost(alt uint8) (int, int) {
	switch p.Kind {
	case KindNormal:
		if alt > 0 {
			return 1, 0
		}
	case KindYield:
		if alt > 0 {
			return 1, 0
		}
	case KindEnv:
		if alt > 0 {
			return 0, 1
		}
	}
	return 0, 0
}

type thread struct {
	id      int
	name    string
	wake    chan struct{}
	done    bool
	blocked func() bool // nil = enabled; otherwise enabled iff blocked() is true
	// spin detection
	recs     [8]loadRec
	recNext  int
	yielding bool
	// starvation deviation (see Sched.StarveCap)
	starving    bool
	starveEpoch uint64
	starveCount int
	panicked    any
	stack       string
}

type loadRec struct {
	addr  uintptr
	epoch uint64
	count int
	pc    uintptr
}

// Sched is one controlled execution.
type Sched struct {
	threads []*thread
	cur     *thread
	prefix  []uint8
	Points  []ChoicePoint
	Steps   int
	epoch   uint64 // bumped by every write-class operation of any thread
	// coarse mode: only Env/explicit points are preemptible; SYNC points only make blocking visible.
	Coarse bool
	// StarveCap > 0 enables the starvation deviation: choosing to continue a spinning thread at a yield point
	// (cost 1, as before) lets it keep spinning, without further choice points, for up to StarveCap yields or
	// until some write happens. This is how waits that give up after a bounded number of re-reads are reached:
	// the thread they wait for is simply not scheduled for that long (one preemption in reality).
	StarveCap int

	horizon      int
	spinNoWrite  int
	lastSpinEpoc uint64
	outcome      string
	mainWake     chan struct{}
	stuck        bool
	Diverged     string
	clock        int64 // logical clock: number of points passed (for history stamps)
	Panics       []string
	StuckInfo    string
	traceOn      bool
	TraceLog     []string
}

// S is the active exploration, nil when code runs natively.
var S *Sched

// FreeRunning is set by the race pass: real goroutines, no scheduler.
var FreeRunning bool

var freeWG sync.WaitGroup

// FreeWait waits for the goroutines spawned through Go in free-running mode.
func FreeWait() { freeWG.Wait() }

// Active reports whether a controlled execution is running.
func Active() bool { return S != nil }

// New prepares an execution that replays prefix and then takes default choices.
func New(prefix []uint8, horizon int) *Sched {
	if horizon <= 0 {
		horizon = 200000
	}
	return &Sched{prefix: prefix, horizon: horizon, mainWake: make(chan struct{}, 1)}
}

// EnableTrace records a human-readable step log (for replays).
func (s *Sched) EnableTrace() { s.traceOn = true }

// Outcome after Run.
func (s *Sched) Outcome() string { return s.outcome }

// Now returns the logical time (monotone counter of scheduling steps).
func (s *Sched) Now() int64 { s.clock++; return s.clock }

// CurID returns the id of the running managed thread (-1 if none).
func CurID() int {
	if S == nil || S.cur == nil {
		return -1
	}
	return S.cur.id
}

type abortPanic struct{}

func (s *Sched) newThread(name string, fn func()) *thread {
	t := &thread{id: len(s.threads), name: name, wake: make(chan struct{}, 1)}
	s.threads = append(s.threads, t)
	go func() {
		<-t.wake
		if s.stuck {
			return
		}
		defer func() {
			if r := recover(); r != nil {
				if _, ok := r.(abortPanic); ok {
					return
				}
				buf := make([]byte, 4096)
				n := runtime.Stack(buf, false)
				t.panicked = r
				s.Panics = append(s.Panics, fmt.Sprintf("thread %s: panic: %v\n%s", t.name, r, trimStack(string(buf[:n]))))
			}
			s.finish(t)
		}()
		fn()
	}()
	return t
}

func trimStack(st string) string {
	lines := strings.Split(st, "\n")
	if len(lines) > 40 {
		lines = lines[:40]
	}
	return strings.Join(lines, "\n")
}

// Run executes the given thread bodies under the scheduler until every managed
// thread (including ones spawned with Go) has finished, or the execution is
// stuck. It must be called from an unmanaged goroutine with S == nil.
func (s *Sched) Run(bodies ...func()) string {
	if S != nil {
		panic("vsched: nested Run")
	}
	for i, b := range bodies {
		s.newThread(fmt.Sprintf("T%d", i), b)
	}
	S = s
	s.outcome = OutcomeOK
	// initial dispatch: forced choice among the initial threads
	next := s.choose(nil, KindForced)
	s.cur = next
	next.wake <- struct{}{}
	<-s.mainWake
	S = nil
	return s.outcome
}

// Go starts fn as a new managed thread (enabled, runs when scheduled).
func Go(name string, fn func()) {
	s := S
	if s == nil {
		if FreeRunning {
			freeWG.Add(1)
			go func() {
				defer freeWG.Done()
				fn()
			}()
			return
		}
		// native mode: run inline (set-up and tear-down are sequential and deterministic).
		fn()
		return
	}
	s.newThread(fmt.Sprintf("%s#%d", name, len(s.threads)), fn)
}

func (s *Sched) enabled(t *thread) bool {
	if t.done {
		return false
	}
	if t.blocked != nil {
		if !t.blocked() {
			return false
		}
	}
	return true
}

// choose picks the next thread. cur may be nil (initial) or a thread that is
// blocked/done (KindForced), still enabled (KindNormal) or yielding (KindYield).
func (s *Sched) choose(cur *thread, kind uint8) *thread {
	var optsBuf [16]*thread
	opts := optsBuf[:0]
	switch kind {
	case KindNormal:
		opts = append(opts, cur)
		for _, t := range s.threads {
			if t != cur && s.enabled(t) {
				opts = append(opts, t)
			}
		}
	case KindYield:
		// round robin after cur, cur last
		n := len(s.threads)
		for k := 1; k < n; k++ {
			t := s.threads[(cur.id+k)%n]
			if s.enabled(t) {
				opts = append(opts, t)
			}
		}
		opts = append(opts, cur)
	case KindForced:
		for _, t := range s.threads {
			if t != cur && s.enabled(t) {
				opts = append(opts, t)
			}
		}
	}
	if len(opts) == 0 {
		return nil
	}
	if len(opts) == 1 {
		return opts[0]
	}
	idx := s.decide(len(opts), kind)
	if kind == KindYield && s.StarveCap > 0 && opts[idx] == cur {
		cur.starving, cur.starveEpoch, cur.starveCount = true, s.epoch, 0
	}
	return opts[idx]
}

func (s *Sched) decide(n int, kind uint8) int {
	if n > 255 {
		n = 255
	}
	i := len(s.Points)
	var c uint8
	if i < len(s.prefix) {
		c = s.prefix[i]
		if int(c) >= n {
			s.Diverged = fmt.Sprintf("replay divergence at choice point %d: choice %d out of range (n=%d kind=%d)", i, c, n, kind)
			c = 0
		}
	}
	s.Points = append(s.Points, ChoicePoint{N: uint8(n), Kind: kind, Chosen: c})
	return int(c)
}

// Choice is an environment choice point with n options; option 0 is the default.
func Choice(n int) int {
	s := S
	if s == nil || n <= 1 {
		return 0
	}
	return s.decide(n, KindEnv)
}

func (s *Sched) switchTo(cur, next *thread) {
	if next == cur {
		return
	}
	s.cur = next
	next.wake <- struct{}{}
	<-cur.wake
	if s.stuck {
		panic(abortPanic{})
	}
}

func (s *Sched) finish(t *thread) {
	t.done = true
	if s.stuck {
		return
	}
	next := s.choose(t, KindForced)
	if next == nil {
		all := true
		for _, o := range s.threads {
			if !o.done {
				all = false
			}
		}
		if !all {
			s.outcome = OutcomeDeadlock
			s.describeStuck()
			s.stuck = true
		}
		s.mainWake <- struct{}{}
		return
	}
	s.cur = next
	next.wake <- struct{}{}
}

func (s *Sched) describeStuck() {
	var sb strings.Builder
	for _, t := range s.threads {
		st := "enabled"
		if t.done {
			st = "done"
		} else if t.blocked != nil && !t.blocked() {
			st = "blocked"
		}
		fmt.Fprintf(&sb, "%s:%s ", t.name, st)
	}
	s.StuckInfo = sb.String()
}

// abort ends a stuck execution: parked goroutines are leaked (they stay parked).
func (s *Sched) abort(outcome string) {
	s.outcome = outcome
	s.describeStuck()
	s.stuck = true
	s.mainWake <- struct{}{}
	// park the calling goroutine forever
	select {}
}

// point is the heart: called by the running thread before a visible operation.
func (s *Sched) point(preemptible bool) {
	cur := s.cur
	s.Steps++
	if s.Steps > s.horizon {
		s.abort(OutcomeHorizon)
	}
	kind := KindNormal
	if cur.yielding {
		cur.yielding = false
		kind = KindYield
		if cur.starving {
			if s.epoch == cur.starveEpoch && cur.starveCount < s.StarveCap {
				cur.starveCount++
				return
			}
			cur.starving = false
		}
		if s.epoch == s.lastSpinEpoc {
			s.spinNoWrite++
			if s.spinNoWrite > 2000 {
				s.abort(OutcomeLivelock)
			}
		} else {
			s.lastSpinEpoc = s.epoch
			s.spinNoWrite = 0
		}
	} else if !preemptible {
		return
	}
	if len(s.threads) == 1 {
		return
	}
	next := s.choose(cur, kind)
	s.switchTo(cur, next)
}

// Block parks the running thread until pred() holds. pred must be cheap and
// must not call shims.
func Block(pred func() bool) {
	s := S
	cur := s.cur
	cur.blocked = pred
	s.Steps++
	if s.Steps > s.horizon {
		s.abort(OutcomeHorizon)
	}
	next := s.choose(cur, KindForced)
	if next == nil {
		if pred() {
			cur.blocked = nil
			return
		}
		s.abort(OutcomeDeadlock)
	}
	if next != cur {
		s.switchTo(cur, next)
	}
	cur.blocked = nil
}

// Point is a preemptible scheduling point for a synchronisation operation.
func Point() {
	s := S
	if s == nil {
		return
	}
	s.point(!s.Coarse)
}

// EnvPoint is a preemptible point inside harness-provided callbacks; it is
// preemptible in coarse mode too.
func EnvPoint() {
	s := S
	if s == nil {
		return
	}
	s.point(true)
}

// Yield marks the running thread as yielding (runtime.Gosched replacement).
func Yield() {
	s := S
	if s == nil {
		runtime.Gosched()
		return
	}
	s.cur.yielding = true
	s.point(true)
}

// NoteWrite records a write-class operation (store, successful RMW, lock,
// unlock): it invalidates every thread's spin-detection records.
func NoteWrite() {
	if s := S; s != nil {
		s.epoch++
	}
}

// NoteLoad records a load-class operation (load, failed CAS, failed TryLock) on
// addr. Three identical loads in one epoch, the last two from the same program
// counter, mean the thread is spinning: its next point is a yield.
func NoteLoad(addr uintptr) {
	s := S
	if s == nil {
		return
	}
	t := s.cur
	for i := range t.recs {
		r := &t.recs[i]
		if r.addr == addr {
			if r.epoch == s.epoch {
				r.count++
				if r.count >= 2 {
					var pcs [1]uintptr
					runtime.Callers(3, pcs[:])
					if r.count >= 3 && r.pc == pcs[0] {
						t.yielding = true
					}
					r.pc = pcs[0]
				}
			} else {
				r.epoch = s.epoch
				r.count = 1
				r.pc = 0
			}
			return
		}
	}
	r := &t.recs[t.recNext]
	t.recNext = (t.recNext + 1) % len(t.recs)
	*r = loadRec{addr: addr, epoch: s.epoch, count: 1}
}

// Tracef appends to the step log when tracing is on.
func Tracef(format string, args ...any) {
	s := S
	if s == nil || !s.traceOn {
		return
	}
	name := "-"
	if s.cur != nil {
		name = s.cur.name
	}
	s.TraceLog = append(s.TraceLog, fmt.Sprintf("[%d %s] ", s.Steps, name)+fmt.Sprintf(format, args...))
}

// Tracing reports whether the step log is on.
func Tracing() bool { return S != nil && S.traceOn }

// TracePoint logs the caller position of a shim operation.
func TracePoint(op string) {
	s := S
	if s == nil || !s.traceOn {
		return
	}
	var pcs [8]uintptr
	n := runtime.Callers(3, pcs[:])
	frames := runtime.CallersFrames(pcs[:n])
	where := ""
	for {
		f, more := frames.Next()
		if !strings.Contains(f.File, "/internal/verif/") {
			file := f.File
			if i := strings.LastIndex(file, "/"); i >= 0 {
				file = file[i+1:]
			}
			fn := f.Function
			if i := strings.LastIndex(fn, "/"); i >= 0 {
				fn = fn[i+1:]
			}
			where = fmt.Sprintf("%s:%d %s", file, f.Line, fn)
			break
		}
		if !more {
			break
		}
	}
	Tracef("%s @ %s", op, where)
}
