//go:build verif

package otter

import "fmt"

// Optional hook: queue orders, totals, sketch digest and climber state of the eviction policy (used for the
// canonical state key and the scale counters). Fallback: inject/stubs/root/zz_verif_opt_policy.go.
func (c *Cache[K, V]) verifPolicyDetails(s *VerifSnapshot[K, V]) {
	cc := c.cache
	p := cc.evictionPolicy
	for n := range p.window.All() {
		s.Window = append(s.Window, n.Key())
	}
	for n := range p.probation.All() {
		s.Probation = append(s.Probation, n.Key())
	}
	for n := range p.protected.All() {
		s.Protected = append(s.Protected, n.Key())
	}
	s.Maximum, s.WeightedSize = p.maximum, p.weightedSize
	s.WindowMax, s.WindowSize = p.windowMaximum, p.windowWeightedSize
	s.ProtectedMax, s.ProtectedSize = p.mainProtectedMaximum, p.mainProtectedWeightedSize
	if !p.sketch.isNotInitialized() {
		h := uint64(1469598103934665603)
		for _, w := range p.sketch.table {
			h = (h ^ w) * 1099511628211
		}
		s.Sketch = fmt.Sprintf("len=%d size=%d sample=%d h=%x", len(p.sketch.table), p.sketch.size, p.sketch.sampleSize, h)
	}
	s.SketchSize, s.SketchSample, s.PrevHitRate = p.sketch.size, p.sketch.sampleSize, p.previousSampleHitRate
	s.Adjust = fmt.Sprintf("step=%v adj=%d hits=%d misses=%d prev=%v", p.stepSize, p.adjustment, p.hitsInSample, p.missesInSample, p.previousSampleHitRate)
}
