//go:build verif

package hashmap

// VerifTableLen reports the current number of root buckets.
func (m *Map[K, V, N]) VerifTableLen() int {
	return len(m.table.Load().buckets)
}

// VerifResizes reports (growths, shrinks) so far.
func (m *Map[K, V, N]) VerifResizes() (int64, int64) {
	return m.totalGrowths.Load(), m.totalShrinks.Load()
}

// VerifChain reports, per root bucket, the keys stored in its chain (in slot order).
func (m *Map[K, V, N]) VerifChain() [][]K {
	t := m.table.Load()
	out := make([][]K, len(t.buckets))
	for i := range t.buckets {
		b := &t.buckets[i]
		for b != nil {
			for j := 0; j < nodesPerMapBucket; j++ {
				if p := b.nodes[j]; p != nil {
					out[i] = append(out[i], m.nodeManager.FromPointer(p).Key())
				}
			}
			b = b.next.Load()
		}
	}
	return out
}
