package harness

import (
	"fmt"
	"strings"

	otter "github.com/maypok86/otter/v2"
)

// Oracles over the history of a concurrent cache scenario: single-flight (C08),
// no-clobber (C09), linearizability (C02) and statistics (C20).

func opFields(op string) []string { return strings.Fields(stripOpts(op)) }

// loadsOf returns the loader invocations made by thread th inside [call, ret].
func loadsOf(r *Rig, th int, call, ret int64) []LoadCall {
	var out []LoadCall
	for _, lc := range r.Loads {
		if lc.Thread == th && lc.Enter >= call && lc.Exit <= ret {
			out = append(out, lc)
		}
	}
	return out
}

func containsKey(keys []int, k int) bool {
	for _, x := range keys {
		if x == k {
			return true
		}
	}
	return false
}

// checkSingleFlight (C08).
func checkSingleFlight(x *Exec, r *Rig, p concParams, recs [][]opRec, threadIDs []int) {
	lbl := "@" + p.Label
	writers := false
	for _, rs := range recs {
		for _, rc := range rs {
			switch opFields(rc.op)[0] {
			case "set", "sia", "cw", "ci", "inv", "invall", "cia", "cipw", "cipi":
				writers = true
			}
		}
	}
	// (1) loader invocations for one key never overlap in time, unless the key was written or invalidated between
	//     the start of the earlier of the two operations and the later loader entry
	opStart := func(lc LoadCall) int64 {
		for _, rs := range recs {
			for _, rc := range rs {
				if rc.tid == lc.Thread && rc.call <= lc.Enter && lc.Enter <= rc.ret {
					return rc.call
				}
			}
		}
		return 0
	}
	writtenBetween := func(k int, from, to int64) bool {
		for _, rs := range recs {
			for _, rc := range rs {
				f := opFields(rc.op)
				switch f[0] {
				case "set", "sia", "cw", "ci", "inv", "invall", "cia", "cipw", "cipi":
					if (f[0] == "invall" || atoi(f[1]) == k) && rc.call <= to && rc.ret >= from {
						return true
					}
				}
			}
		}
		return false
	}
	_ = writers
	{
		for i := 0; i < len(r.Loads); i++ {
			for j := i + 1; j < len(r.Loads); j++ {
				a, b := r.Loads[i], r.Loads[j]
				if b.Enter < a.Enter {
					a, b = b, a
				}
				if a.Enter < b.Exit && b.Enter < a.Exit {
					for _, k := range a.Keys {
						// (the flight whose operation began first may enter its loader last: take the earlier operation start)
						if containsKey(b.Keys, k) && writtenBetween(k, min(opStart(a), opStart(b)), b.Enter) {
							continue
						}
						if containsKey(b.Keys, k) {
							x.Fail("loader-overlap", "loader"+lbl, "the loader was invoked for key %d by %s%v [%d,%d] while %s%v [%d,%d] for the same key was still running", k, b.Kind, b.Keys, b.Enter, b.Exit, a.Kind, a.Keys, a.Enter, a.Exit)
						}
					}
				}
			}
		}
	}
	// (2) a call that did not run the loader itself, yet missed, received the result of a flight that overlaps it
	//     (a call whose cache lookup missed before a flight installed its value and whose flight lookup came after
	//     that flight ended loads again; the invocations do not overlap, which is all the property demands)
	for ti, rs := range recs {
		for _, rc := range rs {
			f := opFields(rc.op)
			if f[0] != "load" || rc.res.Panic != "" {
				continue
			}
			k := atoi(f[1])
			if len(loadsOf(r, threadIDs[ti], rc.call, rc.ret)) > 0 {
				continue
			}
			// no loader call of its own: a hit on a present value, or a joined flight
			explained := false
			if rc.res.OK {
				if kk, ok := r.Installs[rc.res.Val]; ok && kk == k {
					explained = true
				}
			}
			for _, lc := range r.Loads {
				if !containsKey(lc.Keys, k) || !(lc.Enter < rc.ret && rc.call < lc.Exit+1_000_000) {
					continue
				}
				v, supplied := lc.Out[k]
				switch {
				case rc.res.OK && lc.Err == "" && supplied && v == rc.res.Val:
					explained = true
					x.Count("joined-flights")
				case !rc.res.OK && rc.res.Err == "notfound" && (lc.Err == "notfound" || lc.Err == "" && !supplied):
					explained = rc.res.Val == 0 // a not-found result carries no value
					x.Count("joined-flights")
				case !rc.res.OK && rc.res.Err == "loaderr" && lc.Err == "loaderr":
					explained = rc.res.Val == v // a failed load hands over the loader's own value (zero unless it returned one)
					x.Count("joined-flights")
				case !rc.res.OK && lc.Err == "panic":
					explained = true
					x.Count("joined-flights")
				}
			}
			if !explained {
				x.Fail("waiter-wrong-result", opName(rc.op)+lbl, "%q did not invoke the loader and returned (%d,%v,%q), which is neither a cached value nor the outcome of a load of key %d that overlaps the call", rc.op, rc.res.Val, rc.res.OK, rc.res.Err, k)
			}
		}
	}
	// (2b) BulkGet: a key the call did not hand to its own loader call is a hit or comes from an overlapping flight
	for ti, rs := range recs {
		for _, rc := range rs {
			f := opFields(rc.op)
			if f[0] != "bulk" || rc.res.Panic != "" || rc.res.Err != "" {
				continue // on error the partial result is unspecified
			}
			own := loadsOf(r, threadIDs[ti], rc.call, rc.ret)
			seen := map[int]bool{}
			for _, k := range keyList(f[1]) {
				if seen[k] {
					continue
				}
				seen[k] = true
				mine := false
				for _, o := range own {
					if containsKey(o.Keys, k) {
						mine = true
					}
				}
				if mine {
					continue
				}
				got, has := rc.res.Map[k]
				explained := false
				if has {
					if kk, ok := r.Installs[got]; ok && kk == k {
						explained = true
					}
				}
				for _, lc := range r.Loads {
					if lc.Thread == threadIDs[ti] || !containsKey(lc.Keys, k) && lc.Out[k] == 0 {
						continue
					}
					if !(lc.Enter < rc.ret) {
						continue
					}
					v, supplied := lc.Out[k]
					if has && supplied && lc.Err == "" && v == got {
						explained = true
						x.Count("joined-flights")
					}
					if !has && (lc.Err != "" || !supplied) {
						explained = true
						x.Count("joined-flights")
					}
				}
				if !explained {
					x.Fail("waiter-wrong-result", opName(rc.op)+lbl, "%q did not ask its loader for key %d and its result has (%d,%v), which is neither a cached value nor the outcome of another load of that key", rc.op, k, got, has)
				}
			}
		}
	}
	// (4) a panicking loader surfaces as a panic in the caller that ran it
	for ti, rs := range recs {
		for _, rc := range rs {
			for _, own := range loadsOf(r, threadIDs[ti], rc.call, rc.ret) {
				if own.Err == "panic" && rc.res.Panic == "" && (own.Kind == "load" || own.Kind == "bulkload") {
					x.Fail("panic-swallowed", opName(rc.op)+lbl, "%q ran a loader that panicked but returned normally: %s", rc.op, rc.res.String())
				}
			}
		}
	}
}

// checkNoClobber (C09): writes that began after the loader was entered win.
func checkNoClobber(x *Exec, r *Rig, p concParams, recs [][]opRec, contents map[int]int) {
	lbl := "@" + p.Label
	type wr struct {
		rc     opRec
		key    int
		val    int
		remove bool
	}
	var writes []wr
	for _, rs := range recs {
		for _, rc := range rs {
			if rc.res.Panic != "" {
				continue
			}
			f := opFields(rc.op)
			switch f[0] {
			case "set", "cw":
				writes = append(writes, wr{rc: rc, key: atoi(f[1]), val: rc.res.Int})
			case "ci", "inv":
				writes = append(writes, wr{rc: rc, key: atoi(f[1]), remove: true})
			case "invall":
				// counts for keys that are present while being reloaded (its effect on loads of absent keys is undefined)
				writes = append(writes, wr{rc: rc, key: -1, remove: true})
			}
		}
	}
	mayHaveExpired := false
	if p.Cfg.Expiry != "" {
		for _, rs := range recs {
			for _, rc := range rs {
				if opFields(rc.op)[0] == "adv" {
					mayHaveExpired = true
				}
			}
		}
	}
	for _, lc := range r.Loads {
		reloading := lc.Kind == "reload" || lc.Kind == "bulkreload"
		for _, k := range lc.Keys {
			// the unconditional writes to k that certainly began after this loader was entered
			var last *wr
			ambiguous := false
			for i := range writes {
				w := &writes[i]
				if w.key != k && !(w.key == -1 && reloading) {
					continue
				}
				if w.rc.call > lc.Enter {
					if last != nil {
						// two such writes: the later one (by real time) wins if they do not overlap
						if w.rc.call > last.rc.ret {
							last = w
						} else if last.rc.call > w.rc.ret {
							// keep last
						} else {
							ambiguous = true
						}
					} else {
						last = w
					}
				}
			}
			if last == nil || ambiguous {
				continue
			}
			// any later load of k (another flight entered after the write returned) may legitimately replace it
			laterLoad := false
			for _, o := range r.Loads {
				if containsKey(o.Keys, k) && o.Enter > last.rc.call && o.Enter != lc.Enter {
					laterLoad = true
				}
			}
			// other, conditional writers or writers not after the loader may interleave: only judge when `last` is the final explicit write
			laterWrite := false
			for _, rs := range recs {
				for _, rc := range rs {
					f := opFields(rc.op)
					switch f[0] {
					case "set", "cw", "ci", "inv", "sia", "cia", "cipw", "cipi", "invall":
						if (f[0] == "invall" || atoi(f[1]) == k) && rc.call != last.rc.call && rc.ret > last.rc.call {
							laterWrite = true
						}
					}
				}
			}
			if laterLoad || laterWrite {
				continue
			}
			x.Count("writes-during-flight")
			got, present := contents[k]
			loaded, wasLoaded := lc.Out[k]
			switch {
			case last.remove && present:
				what := "a value"
				if wasLoaded && got == loaded {
					what = "the loaded value"
				}
				x.Fail("load-overwrote-invalidation", opName(last.rc.op)+lbl, "key %d was removed by %q (began at %d, after the loader was entered at %d) but afterwards the cache holds %s %d", k, last.rc.op, last.rc.call, lc.Enter, what, got)
			case !last.remove && !present && mayHaveExpired:
				// the written entry ran out while the load was still in flight: nothing left is fine, the loaded value is not
			case !last.remove && (!present || got != last.val):
				what := fmt.Sprintf("%d", got)
				if !present {
					what = "nothing"
				} else if wasLoaded && got == loaded {
					what = fmt.Sprintf("the older loaded value %d", got)
				}
				x.Fail("load-overwrote-write", opName(last.rc.op)+lbl, "key %d was written by %q = %d (began at %d, after the loader was entered at %d) but afterwards the cache holds %s", k, last.rc.op, last.val, last.rc.call, lc.Enter, what)
			}
		}
	}
	// (i') a reload whose old value was removed by an invalidation that the atomic handler reported after the loader
	//      had been entered (whenever the invalidating call began) must not put its result back
	for _, lc := range r.Loads {
		if lc.Kind != "reload" && lc.Kind != "bulkreload" {
			continue
		}
		for i, k := range lc.Keys {
			if i >= len(lc.Olds) {
				continue
			}
			if _, supplied := lc.Out[k]; !supplied || lc.Err != "" {
				continue // a not-found reload removes the entry itself; a failed one installs nothing
			}
			var at int64 = -1
			for _, e := range r.Atomic {
				if e.Key == k && e.Val == lc.Olds[i] && e.Cause == otter.CauseInvalidation && e.At > lc.Enter {
					at = e.At
				}
			}
			if at < 0 {
				continue
			}
			later := false
			for _, rs := range recs {
				for _, rc := range rs {
					f := opFields(rc.op)
					switch f[0] {
					case "set", "sia", "cw", "cia", "cipw", "load", "bulk", "refresh", "bulkrefresh":
						if rc.ret > at && (len(f) < 2 || strings.Contains(f[1], ",") || atoi(f[1]) == k) && !(rc.tid == lc.Thread && rc.call <= lc.Enter && rc.ret >= lc.Enter) {
							later = true
						}
					}
				}
			}
			for _, o := range r.Loads {
				if containsKey(o.Keys, k) && o.Enter > at {
					later = true
				}
			}
			if later {
				continue
			}
			x.Count("invalidated-during-reload")
			if got, present := contents[k]; present {
				x.Fail("load-overwrote-invalidation", "reload"+lbl, "value %d of key %d was invalidated (atomic handler at %d) after its reload had entered the loader at %d, yet afterwards the cache holds %d", lc.Olds[i], k, at, lc.Enter, got)
			}
		}
	}
	// (ii) the callers that ran or joined a successful load still receive the loaded value
	for _, rs := range recs {
		for _, rc := range rs {
			f := opFields(rc.op)
			if f[0] != "load" || rc.res.Panic != "" {
				continue
			}
			k := atoi(f[1])
			for _, lc := range r.Loads {
				if lc.Kind == "load" && containsKey(lc.Keys, k) && lc.Enter >= rc.call && lc.Exit <= rc.ret && lc.Thread == rc.tid {
					if v, ok := lc.Out[k]; ok && lc.Err == "" && (rc.res.Val != v || !rc.res.OK) {
						x.Fail("loader-result-lost", opName(rc.op)+lbl, "%q ran the loader which produced %d but returned (%d,%v,%q)", rc.op, v, rc.res.Val, rc.res.OK, rc.res.Err)
					}
				}
			}
		}
	}
}

// linKeyUsed: the key is present initially or named by some thread operation.
func linKeyUsed(init LinState, recs [][]opRec, k int) bool {
	if init[k] != absent {
		return true
	}
	for _, rs := range recs {
		for _, rc := range rs {
			f := opFields(rc.op)
			if len(f) > 1 && !strings.Contains(f[1], ",") && atoi(f[1]) == k {
				return true
			}
		}
	}
	return false
}

// checkLinearizable (C02).
func checkLinearizable(x *Exec, r *Rig, p concParams, setup []opRec, recs [][]opRec, nAtomicSetup int) {
	lbl := "@" + p.Label
	init := EmptyLinState()
	// initial contents = result of the sequential set-up
	cur := map[int]int{}
	for _, rc := range setup {
		f := opFields(rc.op)
		switch f[0] {
		case "set", "cw":
			cur[atoi(f[1])] = rc.res.Int
		case "sia":
			if rc.res.OK {
				cur[atoi(f[1])] = rc.res.Int
			}
		case "inv", "ci":
			delete(cur, atoi(f[1]))
		}
	}
	for _, e := range r.Atomic[:nAtomicSetup] {
		if v, ok := cur[e.Key]; ok && v == e.Val && (e.Cause == otter.CauseOverflow || e.Cause == otter.CauseExpiration) {
			delete(cur, e.Key)
		}
	}
	for k, v := range cur {
		if k < 0 || k >= linKeys {
			return
		}
		init[k] = int64(v)
	}
	var ops []LinOp
	req := func(s LinState, k int, v int, present bool) bool {
		if present {
			return s[k] == int64(v)
		}
		return s[k] == absent
	}
	for ti, rs := range recs {
		for _, rc := range rs {
			rc := rc
			f := opFields(rc.op)
			name := fmt.Sprintf("T%d[%d,%d]%s", ti, rc.call, rc.ret, rc.res.String())
			if rc.res.Panic != "" && f[0] != "cp" {
				continue
			}
			k := 0
			if len(f) > 1 && !strings.Contains(f[1], ",") {
				k = atoi(f[1])
			}
			res := rc.res
			mk := func(apply func(s LinState) []LinState) {
				ops = append(ops, LinOp{Thread: ti, Call: rc.call, Ret: rc.ret, Name: name, Apply: apply})
			}
			one := func(s LinState, ok bool) []LinState {
				if ok {
					return []LinState{s}
				}
				return nil
			}
			switch f[0] {
			case "set":
				mk(func(s LinState) []LinState {
					ok := req(s, k, res.Val, !res.OK)
					if res.OK {
						ok = s[k] == absent
					}
					s[k] = int64(res.Int)
					return one(s, ok)
				})
			case "sia":
				mk(func(s LinState) []LinState {
					if res.OK {
						ok := s[k] == absent
						s[k] = int64(res.Int)
						return one(s, ok)
					}
					return one(s, s[k] == int64(res.Val))
				})
			case "get", "gete", "getq":
				mk(func(s LinState) []LinState { return one(s, req(s, k, res.Val, res.OK)) })
			case "cw", "ci", "cc", "cp":
				if res.Calls != 1 {
					x.Fail("callback-count", opName(rc.op)+lbl, "%q ran its compute function %d times", rc.op, res.Calls)
					continue
				}
				mk(func(s LinState) []LinState {
					ok := req(s, k, res.SawVal, res.SawOK)
					switch f[0] {
					case "cw":
						s[k] = int64(res.Int)
					case "ci":
						s[k] = absent
					}
					return one(s, ok)
				})
			case "cia", "ciac":
				if res.Calls > 1 {
					x.Fail("callback-count", opName(rc.op)+lbl, "%q ran its compute function %d times", rc.op, res.Calls)
					continue
				}
				mk(func(s LinState) []LinState {
					if res.Calls == 0 {
						return one(s, res.OK && s[k] == int64(res.Val))
					}
					ok := s[k] == absent
					if f[0] == "cia" {
						s[k] = int64(res.Int)
					}
					return one(s, ok)
				})
			case "cipw", "cipi", "cipc":
				if res.Calls > 1 {
					x.Fail("callback-count", opName(rc.op)+lbl, "%q ran its compute function %d times", rc.op, res.Calls)
					continue
				}
				mk(func(s LinState) []LinState {
					if res.Calls == 0 {
						return one(s, !res.OK && s[k] == absent)
					}
					ok := s[k] == int64(res.SawVal)
					switch f[0] {
					case "cipw":
						s[k] = int64(res.Int)
					case "cipi":
						s[k] = absent
					}
					return one(s, ok)
				})
			case "inv":
				mk(func(s LinState) []LinState {
					ok := req(s, k, res.Val, res.OK)
					s[k] = absent
					return one(s, ok)
				})
			case "load":
				own := loadsOf(r, rc.tid, rc.call, rc.ret)
				if len(own) == 0 {
					// a hit, or it joined another flight: it returns a value that was current or that a loader produced
					mk(func(s LinState) []LinState {
						if res.OK && s[k] == int64(res.Val) {
							return []LinState{s}
						}
						// joined flight: legal if some loader call for k overlapping this call produced that outcome
						for _, lc := range r.Loads {
							// a flight stays joinable after its loader has returned, until the operation that ran the
							// loader has installed (or discarded) the outcome: its lifetime ends with that operation
							flightEnd := int64(1 << 60)
							for _, rs := range recs {
								for _, o := range rs {
									if o.tid == lc.Thread && o.call <= lc.Enter && lc.Exit <= o.ret {
										flightEnd = o.ret
									}
								}
							}
							if containsKey(lc.Keys, k) && lc.Enter < rc.ret && flightEnd > rc.call {
								if v, ok := lc.Out[k]; ok && res.OK && v == res.Val {
									return []LinState{s}
								}
								if !res.OK && lc.Err != "" {
									return []LinState{s}
								}
							}
						}
						return nil
					})
					continue
				}
				lc := own[0]
				// miss point: the key was absent at some instant between the call and the loader's entry
				ops = append(ops, LinOp{Thread: ti, Call: rc.call, Ret: lc.Enter, Name: name + "/miss", Apply: func(s LinState) []LinState { return one(s, s[k] == absent) }})
				// install point: between the loader's exit and the return the value is installed or discarded
				ops = append(ops, LinOp{Thread: ti, Call: lc.Exit, Ret: rc.ret, Name: name + "/install", Apply: func(s LinState) []LinState {
					// a value written by an operation that began after this loader was entered is not touched by the
					// load's outcome (values are unique, so the current value names the operation that wrote it)
					if cur := s[k]; cur != absent {
						for _, rs := range recs {
							for _, w := range rs {
								if w.res.Int != 0 && int64(w.res.Int) == cur && w.call > lc.Enter {
									return []LinState{s}
								}
							}
						}
					}
					if v, ok := lc.Out[k]; ok && lc.Err == "" {
						t := s
						t[k] = int64(v)
						return []LinState{t, s}
					}
					if lc.Err == "notfound" {
						// a not-found outcome is applied like a value: if the flight is still the current one (a write that
						// landed between this call's lookup and the registration of its flight does not cancel it) the key
						// is removed. Which writes cancel a flight is C09's question (unambiguous-window rule), not this one's.
						t := s
						t[k] = absent
						return []LinState{t, s}
					}
					return []LinState{s}
				}})
			case "invall":
				// not atomic across keys: one removal per key, each somewhere inside the call
				for kk := 0; kk < linKeys; kk++ {
					if !linKeyUsed(init, recs, kk) {
						continue
					}
					kk := kk
					ops = append(ops, LinOp{Thread: ti, Call: rc.call, Ret: rc.ret, Name: fmt.Sprintf("%s/key%d", name, kk), Apply: func(s LinState) []LinState {
						s[kk] = absent
						return []LinState{s}
					}})
				}
			case "adv", "cleanup", "all", "keys", "values", "coldest", "hottest", "getmax", "wsize", "esize":
				// no map effect (iteration is judged separately)
			default:
				return // an operation this oracle does not model: skip the history
			}
		}
	}
	// automatic removals are zero-width removals at the instant the atomic handler reported them
	for _, e := range r.Atomic[nAtomicSetup:] {
		if e.Cause != otter.CauseOverflow && e.Cause != otter.CauseExpiration {
			continue
		}
		e := e
		if e.Key < 0 || e.Key >= linKeys {
			return
		}
		// the handler runs inside the removing computation; if an explicit operation's own computation reported it
		// (write to an expired key) that operation already accounts for it
		// The handler runs inside the removing computation, just before the node is unlinked from the table;
		// lock-free readers may still see the value until that computation ends. The removal therefore takes
		// effect between the handler's invocation and the return of the operation whose thread ran it
		// (a spawned maintenance goroutine: the end of the execution).
		end := int64(1 << 60)
		for _, rs := range recs {
			for _, rc := range rs {
				if rc.tid == e.Thread && rc.call <= e.At && e.At <= rc.ret {
					end = rc.ret
				}
			}
		}
		ops = append(ops, LinOp{Thread: 99, Call: e.At, Ret: end, Name: fmt.Sprintf("auto[%d,%d]%s", e.At, end, e.String()), Apply: func(s LinState) []LinState {
			if s[e.Key] == int64(e.Val) {
				s[e.Key] = absent
				return []LinState{s}
			}
			return nil
		}})
	}
	if len(ops) > 24 {
		return
	}
	x.Count("histories-checked")
	if ok, best := Linearizable(ops, init); !ok {
		var names []string
		for _, o := range ops {
			names = append(names, o.Name)
		}
		x.Fail("not-linearizable", "cache"+lbl, "no linearization (longest legal prefix %d of %d): %s", best, len(ops), strings.Join(names, " | "))
	}
}

// checkStatsConc (C20): totals at quiescence equal the per-operation tallies.
func checkStatsConc(x *Exec, r *Rig, p concParams, recs [][]opRec) {
	if r.Counter == nil {
		return
	}
	lbl := "@" + p.Label
	var hits, misses uint64
	for _, rs := range recs {
		for _, rc := range rs {
			f := opFields(rc.op)
			res := rc.res
			switch f[0] {
			case "get", "gete":
				if res.OK {
					hits++
				} else {
					misses++
				}
			case "load":
				// a lookup that ran or joined a load was a miss; otherwise it found the entry
				if len(loadsOf(r, rc.tid, rc.call, rc.ret)) > 0 || !res.OK || res.joined {
					misses++
				} else {
					hits++
				}
			case "cw", "ci", "cc":
				if res.SawOK {
					hits++
				} else {
					misses++
				}
			case "bulk":
				// one lookup per distinct key (hit or miss is not observable per key under concurrency)
				seen := map[int]bool{}
				for _, k := range keyList(f[1]) {
					if !seen[k] {
						seen[k] = true
						misses++
					}
				}
			case "cia", "ciac":
				if res.Calls == 0 {
					hits++ // returned the existing value
				} else {
					misses++
				}
			case "cipw", "cipi", "cipc":
				if res.Calls > 0 || res.OK {
					hits++
				} else {
					misses++
				}
			}
		}
	}
	st := r.Counter.Snapshot()
	if st.Hits+st.Misses != hits+misses {
		x.Fail("lookup-count", "stats"+lbl, "hits+misses = %d+%d but the counting operations performed %d lookups", st.Hits, st.Misses, hits+misses)
	} else if ambiguousStats(recs) {
		// joined flights and two-phase computes make hit/miss ambiguous under concurrency: only the sum is exact
	} else if st.Hits != hits {
		x.Fail("lookup-count", "stats"+lbl, "hits=%d misses=%d but the operations found an entry %d times and missed %d times", st.Hits, st.Misses, hits, misses)
	}
	var ok, fail uint64
	for _, lc := range r.Loads {
		if lc.Err == "" || lc.Err == "notfound" {
			ok++
		} else {
			fail++
		}
	}
	if st.LoadSuccesses != ok || st.LoadFailures != fail {
		x.Fail("load-count", "stats"+lbl, "load successes=%d failures=%d; the loader was invoked %d times successfully and %d times with a failure", st.LoadSuccesses, st.LoadFailures, ok, fail)
	}
	var over, exp uint64
	for _, e := range r.Atomic {
		switch e.Cause {
		case otter.CauseOverflow:
			over++
		case otter.CauseExpiration:
			exp++
		}
	}
	if st.Evictions < over || st.Evictions > over+exp {
		x.Fail("eviction-count", "stats"+lbl, "evictions=%d; removals reported: %d Overflow, %d Expiration", st.Evictions, over, exp)
	}
}

func ambiguousStats(recs [][]opRec) bool {
	for _, rs := range recs {
		for _, rc := range rs {
			switch opFields(rc.op)[0] {
			case "load", "bulk", "cia", "ciac", "cipw", "cipi", "cipc":
				return true
			}
		}
	}
	return false
}

// checkIteration (C15, cache level): All/Keys/Values are weakly consistent — no key twice, nothing that was
// removed or replaced before the iteration began, every key present for the whole call is yielded.
// Only meaningful for caches that remove nothing on their own (unbounded, no expiry).
func checkIteration(x *Exec, r *Rig, p concParams, setup []opRec, recs [][]opRec) {
	if p.Cfg.MaxSize > 0 || p.Cfg.MaxWeight > 0 || p.Cfg.Expiry != "" {
		return
	}
	lbl := "@" + p.Label
	type write struct {
		key, val        int
		present         bool
		prevVal         int
		prevFound       bool
		call, ret       int64
		consumedUnknown bool
	}
	var writes []write
	init := map[int]int{}
	add := func(rc opRec, isSetup bool) {
		f := opFields(rc.op)
		if rc.res.Panic != "" || len(f) < 2 || strings.Contains(f[1], ",") {
			return
		}
		k := atoi(f[1])
		w := write{key: k, call: rc.call, ret: rc.ret}
		switch f[0] {
		case "set":
			w.val, w.present = rc.res.Int, true
			w.prevVal, w.prevFound = rc.res.Val, !rc.res.OK
		case "sia":
			if !rc.res.OK {
				return
			}
			w.val, w.present = rc.res.Int, true
		case "cw":
			w.val, w.present = rc.res.Int, true
			w.prevVal, w.prevFound = rc.res.SawVal, rc.res.SawOK
		case "ci":
			w.prevVal, w.prevFound = rc.res.SawVal, rc.res.SawOK
			if !w.prevFound {
				return
			}
		case "inv":
			if !rc.res.OK {
				return
			}
			w.prevVal, w.prevFound = rc.res.Val, true
		case "cia":
			if rc.res.Calls == 0 {
				return
			}
			w.val, w.present = rc.res.Int, true
		default:
			return
		}
		if isSetup {
			if w.present {
				init[k] = w.val
			} else {
				delete(init, k)
			}
			return
		}
		writes = append(writes, w)
	}
	for _, rc := range setup {
		add(rc, true)
	}
	for _, rs := range recs {
		for _, rc := range rs {
			if opFields(rc.op)[0] == "invall" {
				return
			}
			add(rc, false)
		}
	}
	for _, rs := range recs {
		for _, rc := range rs {
			f := opFields(rc.op)
			var items map[int]int
			switch f[0] {
			case "all":
				items = rc.res.Map
				if rc.res.Err != "" {
					x.Fail("iteration-duplicate", "All"+lbl, "%s", rc.res.Err)
				}
			case "keys":
				items = map[int]int{}
				seen := map[int]bool{}
				for _, k := range rc.res.List {
					if seen[k] {
						x.Fail("iteration-duplicate", "Keys"+lbl, "Keys yielded key %d twice", k)
					}
					seen[k] = true
					items[k] = -1
				}
			default:
				continue
			}
			x.Count("iterations-checked")
			for k, v := range items {
				if v < 0 {
					continue
				}
				produced := init[k] == v
				if _, ok := init[k]; !ok {
					produced = false
				}
				for _, w := range writes {
					if w.key == k && w.present && w.val == v && w.call < rc.ret {
						produced = true
					}
				}
				consumed := false
				for _, w := range writes {
					if w.key == k && w.ret < rc.call && w.prevFound && w.prevVal == v {
						consumed = true
					}
				}
				if !produced || consumed {
					x.Fail("iteration-stale", opName(rc.op)+lbl, "%q [%d,%d] yielded %d=%d which was replaced or removed before the iteration began (or was never written)", rc.op, rc.call, rc.ret, k, v)
				}
			}
			must := map[int]bool{}
			for k := range init {
				must[k] = true
			}
			for _, w := range writes {
				if w.present && w.ret < rc.call {
					must[w.key] = true
				}
			}
			for _, w := range writes {
				if !w.present && w.call < rc.ret {
					delete(must, w.key)
				}
			}
			for k := range must {
				if _, ok := items[k]; !ok {
					x.Fail("iteration-missed", opName(rc.op)+lbl, "%q [%d,%d] did not yield key %d which was present for its whole duration", rc.op, rc.call, rc.ret, k)
				}
			}
		}
	}
}

// checkDeadlineSetters (C11/C12): a SetRefreshableAfter / SetExpiresAfter issued while a load or reload of the key
// is in flight is not lost. The clock does not move in these scenarios, so the deadline an entry may end with is
// either the one the setter asked for, or the one a successful install recomputed after it (policies that
// recompute on that kind of install only).
func checkDeadlineSetters(x *Exec, r *Rig, p concParams, recs [][]opRec) {
	lbl := "@" + p.Label
	now := r.Clock.now
	for _, rs := range recs {
		for _, rc := range rs {
			f := opFields(rc.op)
			if (f[0] != "sra" && f[0] != "sea") || rc.res.Panic != "" {
				continue
			}
			k, d := atoi(f[1]), atoi64(f[2])
			other := false
			for _, rs2 := range recs {
				for _, o := range rs2 {
					g := opFields(o.op)
					switch g[0] {
					case "set", "sia", "cw", "ci", "cia", "cipw", "cipi", "inv", "invall", "adv", "sra", "sea":
						if o.call != rc.call && (g[0] == "invall" || g[0] == "adv" || atoi(g[1]) == k) && (g[0] != "sra" && g[0] != "sea" || g[0] == f[0]) {
							other = true
						}
					}
				}
			}
			if other {
				continue
			}
			ent, ok := r.C.GetEntryQuietly(k)
			if !ok {
				continue
			}
			installed := false // a load of k produced the value the cache now holds
			for _, lc := range r.Loads {
				if v, sup := lc.Out[k]; sup && lc.Err == "" && containsKey(lc.Keys, k) && v == ent.Value {
					installed = true
				}
			}
			if installed && (f[0] == "sra" && p.Cfg.Refresh == "creating" || f[0] == "sea" && p.Cfg.Expiry == "creating") {
				// an install under a creation-only policy carries the deadline it read from the old entry over to the
				// new one; a setter that lands between that read and the swap is overwritten. The listed properties
				// do not order a setter against a concurrent install, so this outcome is not judged (DESIGN.md §7).
				x.Count("setter-vs-install-not-judged")
				continue
			}
			x.Count("setters-during-flight")
			if f[0] == "sra" && p.Cfg.Refresh != "" {
				want := []int64{now + d}
				if installed && p.Cfg.Refresh == "writing" {
					want = append(want, now+p.Cfg.RefreshTTL)
				}
				if !containsI64(want, ent.RefreshableAtNano) {
					x.Fail("setter-lost", "SetRefreshableAfter"+lbl, "%q returned, no other write to key %d, yet the entry is refreshable at %d (clock %d); expected one of %v", rc.op, k, ent.RefreshableAtNano, now, want)
				}
			}
			if f[0] == "sea" && p.Cfg.Expiry != "" {
				want := []int64{now + d}
				if installed && p.Cfg.Expiry == "writing" {
					want = append(want, now+p.Cfg.TTL)
				}
				if !containsI64(want, ent.ExpiresAtNano) {
					x.Fail("setter-lost", "SetExpiresAfter"+lbl, "%q returned, no other write to key %d, yet the entry expires at %d (clock %d); expected one of %v", rc.op, k, ent.ExpiresAtNano, now, want)
				}
			}
		}
	}
}

func containsI64(xs []int64, v int64) bool {
	for _, e := range xs {
		if e == v {
			return true
		}
	}
	return false
}

func containsInt(xs []int, v int) bool {
	for _, e := range xs {
		if e == v {
			return true
		}
	}
	return false
}

// checkPublished (C02/C08): a loader-backed Get that returned a value (its own load or a flight it joined) returns
// after that value is in the cache: if nothing in the whole run can remove or replace the key (no explicit writer or
// invalidation of it, no automatic removal reported, no load of it that ended without a value), a later lookup by the
// same goroutine finds an entry.
func checkPublished(x *Exec, r *Rig, p concParams, recs [][]opRec, nAtomicSetup int) {
	lbl := "@" + p.Label
	removable := map[int]bool{}
	for _, rs := range recs {
		for _, rc := range rs {
			f := opFields(rc.op)
			switch f[0] {
			case "set", "sia", "cw", "ci", "cia", "cipw", "cipi", "inv", "sea":
				removable[atoi(f[1])] = true
			case "invall", "setmax", "adv":
				return // anything may go
			}
		}
	}
	for _, e := range r.Atomic[nAtomicSetup:] {
		removable[e.Key] = true
	}
	for _, lc := range r.Loads {
		for _, k := range lc.Keys {
			if _, ok := lc.Out[k]; !ok || lc.Err != "" {
				removable[k] = true
			}
		}
	}
	for _, rs := range recs {
		for i := 0; i+1 < len(rs); i++ {
			a, b := rs[i], rs[i+1]
			fa, fb := opFields(a.op), opFields(b.op)
			if fa[0] != "load" || a.res.Panic != "" || a.res.Err != "" || !a.res.OK {
				continue
			}
			if fb[0] != "get" && fb[0] != "getq" && fb[0] != "gete" || fb[1] != fa[1] {
				continue
			}
			k := atoi(fa[1])
			if removable[k] {
				continue
			}
			x.Count("published-checked")
			if !b.res.OK {
				x.Fail("loaded-value-not-published", opName(a.op)+lbl, "%q returned %d (no error) and nothing in this run removes key %d, but the same goroutine's next %q finds nothing: the call returned before the loaded value was in the cache", a.op, a.res.Val, k, b.op)
			}
		}
	}
}

// checkVolunteered (C10, concurrent part): "BulkGet caches additional keys the loader volunteered" and "a failed load
// leaves the cache unchanged". A key k that a successful bulk loader call volunteered (k in its result, not among the keys
// it was asked for) must be what the cache holds for k at quiescence, unless something else in the run may legitimately
// decide k's final value: an explicit write/invalidation of k, another loader call that produced a value for k, or a
// not-found answer for k (whether a not-found Load removes an entry written meanwhile is implementation-defined).
// Loads of k that merely fail (error, panic) change nothing. Only for caches that remove nothing on their own.
func checkVolunteered(x *Exec, r *Rig, p concParams, recs [][]opRec, contents map[int]int) {
	if p.Cfg.MaxSize > 0 || p.Cfg.MaxWeight > 0 || p.Cfg.Expiry != "" {
		return
	}
	written := map[int]bool{}
	for _, rs := range recs {
		for _, rc := range rs {
			f := opFields(rc.op)
			switch f[0] {
			case "set", "sia", "cw", "ci", "cia", "cipw", "cipi", "inv", "cc", "cp", "ciac", "cipc":
				written[atoi(f[1])] = true
			case "invall":
				return
			}
		}
	}
	for i, lc := range r.Loads {
		if lc.Err != "" || (lc.Kind != "bulkload" && lc.Kind != "bulkreload") {
			continue
		}
		for k, v := range lc.Out {
			if containsKey(lc.Keys, k) || written[k] {
				continue
			}
			decided := false
			for j, o := range r.Loads {
				if j == i {
					continue
				}
				if _, produced := o.Out[k]; produced && o.Err == "" {
					decided = true
				}
				if containsKey(o.Keys, k) && (o.Err == "notfound" || o.Err == "" && !hasKey(o.Out, k)) {
					decided = true
				}
			}
			if decided {
				x.Count("volunteered-not-judged")
				continue
			}
			x.Count("volunteered-judged")
			if cv, ok := contents[k]; !ok {
				x.Fail("volunteered-not-cached", "BulkGet@"+p.Label, "a bulk loader call for %v volunteered %d=%d and nothing else wrote, invalidated or successfully loaded key %d (other loads of it only failed), yet the cache does not hold the key at quiescence", lc.Keys, k, v, k)
			} else if cv != v {
				x.Fail("volunteered-not-cached", "BulkGet@"+p.Label, "a bulk loader call for %v volunteered %d=%d and nothing else wrote or successfully loaded key %d, yet the cache holds %d", lc.Keys, k, v, k, cv)
			}
		}
	}
}

func hasKey(m map[int]int, k int) bool { _, ok := m[k]; return ok }

// checkProducerOrder (C16 at cache level): "events from one producer are consumed in the order that producer submitted
// them". With a same-goroutine executor OnDeletion is invoked while the consumer applies the event, so for one thread's
// successive replacements of one key (v1 -> v2, then v2 -> v3) the notification of v1 precedes that of v2.
func checkProducerOrder(x *Exec, r *Rig, p concParams, recs [][]opRec) {
	if p.Cfg.Executor != "caller" {
		return
	}
	pos := map[int]int{}
	for i, e := range r.Events {
		if _, dup := pos[e.Val]; !dup {
			pos[e.Val] = i
		}
	}
	for _, rs := range recs {
		last := map[int]int{} // key -> the value this thread replaced most recently (whose notification was seen)
		for _, rc := range rs {
			f := opFields(rc.op)
			if rc.res.Panic != "" || len(f) < 2 {
				continue
			}
			var replaced int
			switch f[0] {
			case "set":
				if !rc.res.OK {
					replaced = rc.res.Val
				}
			case "cw":
				if rc.res.SawOK {
					replaced = rc.res.SawVal
				}
			}
			if replaced == 0 {
				continue
			}
			k := atoi(f[1])
			if prev, ok := last[k]; ok {
				pi, okp := pos[prev]
				ci, okc := pos[replaced]
				if okp && okc {
					x.Count("producer-order-pairs")
					if pi > ci {
						x.Fail("producer-order", "OnDeletion@"+p.Label, "one goroutine replaced %d and then %d (key %d), but the consumer applied the second event first: OnDeletion saw %d before %d", prev, replaced, k, replaced, prev)
					}
				}
			}
			last[k] = replaced
		}
	}
}
