package harness

import (
	"bytes"
	"fmt"
	"io"
	"sort"

	otter "github.com/maypok86/otter/v2"
)

// C19: SaveCacheTo / LoadCacheFrom round trip, evaluated at every distinct state the
// sequential exploration reaches.

type persistParams struct {
	TargetMax []int64 `json:"target_max"` // -1 = same as the source; otherwise MaximumSize/MaximumWeight of the target
}

// persistCheck is called on a live sequential runner whose operations have all been applied.
func persistCheck(s *seqRunner, pp *persistParams, fail func(kind, subject, format string, args ...any)) int {
	r, m := s.r, s.m
	t0 := m.now
	res := r.Do(-1, "save")
	if res.Err != "" {
		fail("save-error", "SaveCacheTo", "SaveCacheTo failed: %s", res.Err)
		return 0
	}
	saved := res.Entries
	data := append([]byte(nil), r.Saved...)
	// the save itself may run maintenance and remove entries: follow the events
	for _, ev := range r.Atomic[s.nAtomic:] {
		if e := m.m[ev.Key]; e != nil && e.val == ev.Val {
			delete(m.m, ev.Key)
		}
	}
	s.nAtomic = len(r.Atomic)
	// 1. what was saved: only live entries, each once; all of them when they fit the source's maximum
	seen := map[int]bool{}
	var savedW uint64
	for _, e := range saved {
		if seen[e.Key] {
			fail("saved-duplicate", "SaveCacheTo", "key %d saved twice", e.Key)
		}
		seen[e.Key] = true
		me, ok := m.get(e.Key)
		if !ok || me.val != e.Value {
			fail("absent-or-expired-saved", "SaveCacheTo", "saved %d=%d (expires %d) which is absent or expired at save time %d", e.Key, e.Value, e.ExpiresAtNano, t0)
			continue
		}
		savedW += uint64(e.Weight)
		wantExp, wantRef := never, never
		if s.cfg.Expiry != "" {
			wantExp = me.exp
		}
		if s.cfg.Refresh != "" {
			wantRef = me.ref
		}
		if e.ExpiresAtNano != wantExp || e.RefreshableAtNano != wantRef {
			fail("saved-deadline-mismatch", "SaveCacheTo", "saved %d with deadlines (%d,%d), the entry has (%d,%d)", e.Key, e.ExpiresAtNano, e.RefreshableAtNano, wantExp, wantRef)
		}
	}
	if m.totalLiveWeight() <= m.max {
		for _, k := range m.liveKeys() {
			if !seen[k] {
				kind := "live-entry-not-saved"
				if m.weightOf(m.m[k].val) == 0 {
					kind = "zero-weight-entry-not-saved"
				}
				fail(kind, "SaveCacheTo", "key %d is live at save time and the contents fit the maximum, but it was not saved", k)
			}
		}
	}
	// 2. offsets between save and load: 0, 1, around every deadline, past every refresh deadline, past everything
	offs := map[int64]bool{0: true, 1: true}
	var maxD int64
	for _, e := range saved {
		if e.ExpiresAtNano != never && e.ExpiresAtNano > t0 {
			d := e.ExpiresAtNano - t0
			offs[d-1], offs[d], offs[d+1] = true, true, true
			if d > maxD {
				maxD = d
			}
		}
		if e.RefreshableAtNano != never && e.RefreshableAtNano > t0 {
			offs[e.RefreshableAtNano-t0] = true
			offs[e.RefreshableAtNano-t0+1] = true
		}
	}
	if maxD > 0 {
		offs[maxD+5] = true
	}
	var offList []int64
	for o := range offs {
		if o >= 0 {
			offList = append(offList, o)
		}
	}
	sort.Slice(offList, func(i, j int) bool { return offList[i] < offList[j] })
	trips := 0
	for _, off := range offList {
		for _, tm := range pp.TargetMax {
			cfgT := s.cfg
			cfgT.ClockStart = t0 + off
			if tm >= 0 {
				if cfgT.MaxSize > 0 {
					cfgT.MaxSize = int(tm)
				} else if cfgT.MaxWeight > 0 {
					cfgT.MaxWeight = uint64(tm)
				} else {
					continue
				}
				if tm == 0 {
					continue
				}
			}
			// jump < 0: the clock stands at t0+off for the whole load. jump >= 0: the load starts at the save time and
			// the clock moves to t0+off while LoadCacheFrom is blocked reading byte `jump` of its input (entries are
			// judged against the clock value at the end of the load)
			for _, jump := range jumpsFor(off, tm, len(data)) {
				trips++
				loadAt := t0 + off
				var rd io.Reader = bytes.NewReader(data)
				if jump >= 0 {
					cfgT.ClockStart = t0
				} else {
					cfgT.ClockStart = loadAt
				}
				tr := NewRig(cfgT, nil)
				if jump >= 0 {
					rd = &jumpReader{data: data, at: jump, clock: tr.Clock, to: loadAt}
				}
				if err := otter.LoadCacheFrom(tr.C, rd); err != nil {
					fail("load-error", "LoadCacheFrom", "LoadCacheFrom failed: %v", err)
					tr.Close()
					continue
				}
				tr.C.CleanUp()
				got := map[int]otter.Entry[int, int]{}
				for k := range tr.C.All() {
					if e, ok := tr.C.GetEntryQuietly(k); ok {
						got[k] = e
					}
				}
				tmax := tr.C.GetMaximum()
				var liveW uint64
				live := map[int]otter.Entry[int, int]{}
				for _, e := range saved {
					if s.cfg.Expiry == "" || e.ExpiresAtNano > loadAt {
						live[e.Key] = e
						liveW += uint64(e.Weight)
					}
				}
				ctx := fmt.Sprintf("saved at %d, loaded at %d (+%d) into maximum %d", t0, loadAt, off, tmax)
				if jump >= 0 {
					ctx = fmt.Sprintf("saved at %d, load started at the same time, clock moved to %d (+%d) while the load was reading byte %d of %d, maximum %d", t0, loadAt, off, jump, len(data), tmax)
				}
				var gotW uint64
				for k, ge := range got {
					gotW += uint64(ge.Weight)
					le, ok := live[k]
					if !ok {
						kind := "absent-entry-loaded"
						for _, e := range saved {
							if e.Key == k {
								kind = "expired-entry-loaded"
							}
						}
						fail(kind, "LoadCacheFrom", "%s: key %d=%d (expires %d) is present in the loaded cache but was absent or already expired at load time", ctx, k, ge.Value, ge.ExpiresAtNano)
						continue
					}
					if ge.Value != le.Value {
						fail("loaded-value-mismatch", "LoadCacheFrom", "%s: key %d loaded with value %d, saved %d", ctx, k, ge.Value, le.Value)
					}
					if s.cfg.Expiry != "" && ge.ExpiresAtNano != le.ExpiresAtNano {
						fail("loaded-deadline-mismatch", "LoadCacheFrom", "%s: key %d loaded with expiration %d, saved %d", ctx, k, ge.ExpiresAtNano, le.ExpiresAtNano)
					}
					if s.cfg.Refresh != "" {
						if le.RefreshableAtNano > loadAt {
							if ge.RefreshableAtNano != le.RefreshableAtNano {
								fail("loaded-refresh-mismatch", "LoadCacheFrom", "%s: key %d loaded with refresh time %d, saved %d (still in the future)", ctx, k, ge.RefreshableAtNano, le.RefreshableAtNano)
							}
						} else if ge.RefreshableAtNano > loadAt+1 {
							fail("loaded-refresh-mismatch", "LoadCacheFrom", "%s: key %d was due for refresh at %d but is loaded with refresh time %d", ctx, k, le.RefreshableAtNano, ge.RefreshableAtNano)
						}
					}
				}
				if gotW > tmax {
					fail("bound-exceeded", "LoadCacheFrom", "%s: loaded entries weigh %d", ctx, gotW)
				}
				if liveW <= tmax {
					for k, le := range live {
						if _, ok := got[k]; !ok {
							kind := "live-entry-not-loaded"
							if le.Weight == 0 {
								kind = "zero-weight-entry-not-loaded"
							}
							fail(kind, "LoadCacheFrom", "%s: key %d=%d (expires %d) was not expired at load time and everything fits, but it was not loaded", ctx, k, le.Value, le.ExpiresAtNano)
						}
					}
				}
				tr.Close()
			}
		}
	}
	return trips
}

// jumpsFor: -1 (no jump) always; for the same-size target and a positive offset also a jump in the middle and
// near the end of the stream.
func jumpsFor(off, tm int64, n int) []int {
	if off <= 0 || tm >= 0 || n < 8 {
		return []int{-1}
	}
	return []int{-1, n / 2, n - n/4}
}

// jumpReader hands out one byte per Read and moves the manual clock when byte `at` is requested.
type jumpReader struct {
	data  []byte
	pos   int
	at    int
	clock *manualClock
	to    int64
}

func (j *jumpReader) Read(p []byte) (int, error) {
	if j.pos >= len(j.data) {
		return 0, io.EOF
	}
	if len(p) == 0 {
		return 0, nil
	}
	if j.pos == j.at {
		j.clock.now = j.to
	}
	p[0] = j.data[j.pos]
	j.pos++
	return 1, nil
}

func (m *Model) totalLiveWeight() uint64 {
	var s uint64
	for _, k := range m.liveKeys() {
		s += m.weightOf(m.m[k].val)
	}
	return s
}
