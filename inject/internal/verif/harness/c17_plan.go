package harness

import "fmt"

func init() {
	plans["C17"] = func(thorough bool) []*Job {
		var jobs []*Job
		add := func(p c17Params, variant string, pb, eb, shards, budget int, need ...string) {
			if variant == "small" {
				p.BufSize = 4
			} else {
				p.BufSize = 16
			}
			jobs = append(jobs, &Job{Scenario: "c17.striped", Params: js(p), Variant: variant, PB: pb, EB: eb, Shards: shards, BudgetS: budget, Terminat: true, Need: need})
		}
		// "dropping reads never changes what any cache operation returns": with a deferred executor nothing drains
		// the read buffer, so a run of reads saturates it (ring size 4 in the small-scope build) and later reads are
		// dropped; every operation after that must still agree with the reference model.
		for _, cfg := range []CacheCfg{
			{MaxSize: 3, Executor: "deferred"},
			{MaxSize: 2, Expiry: "accessing", TTL: 100, Executor: "deferred", ClockStart: 1 << 40},
		} {
			pre := []string{"set 1", "set 2", "runexec", "get 1", "get 1", "get 2", "get 1", "get 1", "get 2", "get 1"}
			a := baseAlphabet([]int{1, 2, 3}, cfg, false)
			a = append(a, "get 1", "gete 2", "cw 1", "coldest", "hottest", "runexec")
			depth := 2
			if thorough {
				depth = 3
			}
			j := seqJob(seqParams{Cfg: cfg, Alphabet: a, Prefixes: [][]string{pre}}, depth, 2, 60, "read-buffer-saturated")
			j.Variant = "small"
			jobs = append(jobs, j)
		}
		// a read that is dropped (full ring: the read asks for a drain and, with a same-goroutine executor, runs the
		// maintenance itself) while the clock moves past the entry's old deadline: the outcome must still be the one of
		// some order of the two operations (either the read came first and extended the deadline, or it missed)
		for _, rd := range []string{"get 1", "gete 1", "load 1 val"} { // single-key reads: a bulk read is not atomic with respect to the clock
			cfg := CacheCfg{MaxSize: 8, Expiry: "accessing", TTL: 2 * tickNs, ClockStart: 1 << 40}
			setup := []string{"set 1", "set 2", "get 1", "get 1", "get 1", "get 1", fmt.Sprintf("adv %d", 2*tickNs-5)}
			p := concParams{Label: "droppedRead(" + rd + ")‖clock", Cfg: cfg, Setup: setup, Threads: [][]string{{"adv 10"}, {rd, "getq 1"}}, Oracles: []string{"interleaving-equiv"}}
			j := &Job{Scenario: "cache.conc", Params: js(p), Variant: "small", PB: 2, Shards: 4, BudgetS: 60, Need: []string{"interleavings-explained", "read-buffer-saturated-at-start"}}
			jobs = append(jobs, j)
		}
		// sequential: recorded reads are pending when the maximum is lowered (the sketch may be rebuilt or released) and
		// entries are invalidated; the next CleanUp delivers them
		{
			cfg := CacheCfg{MaxSize: 8}
			pre := []string{"set 1", "set 2", "set 3", "set 4", "set 5", "cleanup", "get 1", "get 2", "get 1"}
			a := []string{"setmax 0", "setmax 1", "setmax 2", "setmax 4", "setmax 20", "inv 1", "inv 2", "inv 3", "inv 4", "get 3", "cleanup", "set 6"}
			depth := 4
			if thorough {
				depth = 5
			}
			jobs = append(jobs, seqJob(seqParams{Cfg: cfg, Alphabet: a, Prefixes: [][]string{pre}}, depth, 4, 60, "cleanups-with-empty-read-buffer"))
		}
		// cache level: the read buffer has exactly one consumer at a time. Recorded reads are pending when two operations
		// that drain it (InvalidateAll, CleanUp, a write's maintenance) overlap; afterwards every recorded read is
		// delivered by a drain at quiescence
		for _, pair := range [][]string{{"invall", "cleanup"}, {"invall", "invall"}, {"invall", "set 3"}, {"cleanup", "set 3"}} {
			// expiring: reads are recorded from the start (a size-bounded cache skips the buffer until its sketch is in use)
			cfg := CacheCfg{MaxSize: 8, Expiry: "writing", TTL: 1 << 30, ClockStart: 1 << 40, Executor: "caller"}
			setup := []string{"set 1", "set 2", "cleanup", "get 1", "get 2", "get 1"}
			p := concParams{Label: "cache:" + pair[0] + "‖" + pair[1] + "(pending reads)", Cfg: cfg, Setup: setup, Threads: [][]string{{pair[0], "get 1", "get 2"}, {pair[1], "get 2"}}, Oracles: []string{"readbuf-drained"}}
			jobs = append(jobs, &Job{Scenario: "cache.conc", Params: js(p), Variant: "small", PB: 2, Shards: 4, BudgetS: 60, Need: []string{"readbuf-checks"}})
		}
		// stripe tables with empty slots between rings (two doublings, then attaches at environment-chosen slots)
		add(c17Params{MaxLen: 4, Adders: []int{2, 1}, Prefill: 1, Doubles: 2, Drains: 1, RandOpts: 4}, "small", 1, 4, 8, 60, "success", "ring-behind-empty-stripe")
		// a stripe attach racing the table expansion of another (contended) Add
		add(c17Params{MaxLen: 4, Adders: []int{1, 1}, Prefill: 1, Doubles: 1, Doublers: 1, Drains: 1, RandOpts: 4}, "small", 2, 2, 8, 60, "success")
		if !thorough {
			// first-use initialisation race + adds racing one drain
			add(c17Params{MaxLen: 2, Adders: []int{2, 2}, Drains: 1}, "small", 2, 0, 8, 60, "success")
			// ring positioned at full (4 of 4): adders race the drain that frees slots; wrap-around
			add(c17Params{MaxLen: 1, Adders: []int{2, 1}, Prefill: 3, PreDrain: true, Prefill2: 3, Drains: 2}, "small", 2, 0, 8, 60, "success", "full", "concurrent-deliveries")
			// stripe attach / table doubling with random stripe answers as environment choices
			add(c17Params{MaxLen: 4, Adders: []int{2, 2}, Prefill: 1, Drains: 1, RandOpts: 2}, "small", 1, 2, 8, 60, "success")
			// table doubling under contention: two CAS failures of one Add need three adders at pb 2
			add(c17Params{MaxLen: 4, Adders: []int{1, 1, 2}, Prefill: 1, Drains: 1}, "small", 2, 0, 8, 60, "success", "expanded")
			// the same, then (quiescent) one Add per token index: the table the code's own expansion step built must be usable
			add(c17Params{MaxLen: 4, Adders: []int{1, 1, 2}, Prefill: 1, Drains: 1, RandOpts: 4, PostTokens: true}, "small", 2, 0, 8, 60, "success", "expanded", "post-success")
			// native ring size, wrap-around
			add(c17Params{MaxLen: 1, Adders: []int{2, 2}, Prefill: 15, PreDrain: true, Prefill2: 14, Drains: 1}, "native", 2, 0, 8, 60, "success", "full")
			return jobs
		}
		add(c17Params{MaxLen: 2, Adders: []int{2, 2}, Drains: 2}, "small", 3, 0, 16, 300, "success")
		add(c17Params{MaxLen: 1, Adders: []int{3, 2}, Prefill: 3, PreDrain: true, Prefill2: 3, Drains: 2}, "small", 3, 0, 16, 300, "success", "full", "concurrent-deliveries")
		add(c17Params{MaxLen: 4, Adders: []int{2, 2, 1}, Prefill: 1, Drains: 1, RandOpts: 2}, "small", 2, 2, 16, 300, "success")
		add(c17Params{MaxLen: 4, Adders: []int{3, 3}, Prefill: 1, Drains: 2, RandOpts: 4}, "small", 2, 2, 16, 300, "success")
		add(c17Params{MaxLen: 4, Adders: []int{1, 2, 2}, Prefill: 1, Drains: 1}, "small", 3, 0, 16, 300, "success", "expanded")
		add(c17Params{MaxLen: 2, Adders: []int{2, 2}, Prefill: 1, Drains: 1, RandOpts: 2}, "small", 3, 2, 16, 300, "success", "expanded")
		add(c17Params{MaxLen: 8, Adders: []int{1, 1, 2}, Prefill: 1, Drains: 1, RandOpts: 4, PostTokens: true}, "small", 2, 1, 16, 300, "success", "expanded", "post-success")
		add(c17Params{MaxLen: 1, Adders: []int{2, 2}, Prefill: 15, PreDrain: true, Prefill2: 14, Drains: 2}, "native", 3, 0, 16, 300, "success", "full")
		add(c17Params{MaxLen: 2, Adders: []int{2, 2, 2}, Drains: 1}, "native", 2, 0, 16, 300, "success")
		return jobs
	}
}
