// Package instrument rewrites the current working tree of /repo into an
// overlay (go build -overlay) in which every sync / sync/atomic operation goes
// through the verification shims, goroutine creation is managed, map ranging
// is deterministic, and the verification-only files are added. /repo itself is
// never modified.
package instrument

import (
	"bytes"
	"crypto/sha256"
	"encoding/hex"
	"encoding/json"
	"fmt"
	"go/ast"
	"go/format"
	"go/token"
	"go/types"
	"io/fs"
	"os"
	"path/filepath"
	"sort"
	"strconv"
	"strings"

	"golang.org/x/tools/go/ast/astutil"
	"golang.org/x/tools/go/packages"
)

const modPath = "github.com/maypok86/otter/v2"

// Variant selects small-scope constant overrides.
type Variant struct {
	Name   string
	Consts map[string]map[string]string // package dir (relative) -> const name -> new literal
}

var Native = Variant{Name: "native"}

// Small shrinks tuning constants so that growth, wrap-around and full-buffer
// paths are reachable within a few operations.
var Small = Variant{Name: "small", Consts: map[string]map[string]string{
	"internal/hashmap": {"defaultMinMapTableLen": "2", "minBucketsPerGoroutine": "1"},
	"internal/lossy":   {"bufferSize": "4"},
	".":                {"writeBufferRetries": "2", "queueTransferThreshold": "2"},
}}

var Variants = map[string]Variant{"native": Native, "small": Small}

// Result describes a generated overlay.
type Result struct {
	OverlayPath string
	Dir         string
	Skipped     []string // rewrite targets that were not found
	Rewrites    map[string]int
}

// instrumented package dirs (relative to repo root)
var pkgDirs = []string{".", "internal/hashmap", "internal/deque/queue", "internal/lossy", "internal/xsync",
	"internal/generated/node", "internal/expiration", "internal/deque", "internal/xiter", "internal/xmath", "stats"}

// TreeHash hashes every input that influences the instrumented build.
func TreeHash(repo, inject string) (string, error) {
	h := sha256.New()
	add := func(root string) error {
		var files []string
		err := filepath.WalkDir(root, func(p string, d fs.DirEntry, err error) error {
			if err != nil {
				return err
			}
			if d.IsDir() {
				n := d.Name()
				if n == ".git" || n == "benchmarks" || n == "docs" || n == "cmd" || n == "plugin" || n == "testdata" {
					return filepath.SkipDir
				}
				return nil
			}
			if strings.HasSuffix(p, ".go") && !strings.HasSuffix(p, "_test.go") || d.Name() == "go.mod" || d.Name() == "go.sum" {
				files = append(files, p)
			}
			return nil
		})
		if err != nil {
			return err
		}
		sort.Strings(files)
		for _, f := range files {
			b, err := os.ReadFile(f)
			if err != nil {
				return err
			}
			fmt.Fprintf(h, "%s\x00%d\x00", f, len(b))
			h.Write(b)
		}
		return nil
	}
	if err := add(repo); err != nil {
		return "", err
	}
	if err := add(inject); err != nil {
		return "", err
	}
	return hex.EncodeToString(h.Sum(nil))[:24], nil
}

// Generate builds the overlay for repo into outDir.
// Stubs names optional hook files (zz_verif_opt_*.go under inject/pkg) that are to be replaced by their stubs under
// inject/stubs (same relative path): used when a changed tree no longer has the private names a hook relies on.
func Generate(repo, inject, outDir string, v Variant, stubs map[string]bool) (*Result, error) {
	res := &Result{Dir: outDir, Rewrites: map[string]int{}}
	for name := range stubs {
		res.Skipped = append(res.Skipped, "optional hook replaced by its stub: "+name)
	}
	if err := os.MkdirAll(outDir, 0o755); err != nil {
		return nil, err
	}
	replace := map[string]string{}

	// 1. virtual packages and replacement files from /verif/inject
	err := filepath.WalkDir(inject, func(p string, d fs.DirEntry, err error) error {
		if err != nil {
			return err
		}
		if d.IsDir() || !strings.HasSuffix(p, ".go") {
			return nil
		}
		rel, _ := filepath.Rel(inject, p)
		parts := strings.SplitN(rel, string(filepath.Separator), 2)
		if len(parts) != 2 {
			return nil
		}
		switch parts[0] {
		case "internal": // inject/internal/verif/... -> /repo/internal/verif/...
			replace[filepath.Join(repo, rel)] = p
		case "replace": // inject/replace/<path> -> /repo/<path>
			replace[filepath.Join(repo, parts[1])] = p
		case "pkg": // inject/pkg/<path>/zz_verif_x.go -> /repo/<path>/zz_verif_x.go (root package: pkg/root/...)
			sub := parts[1]
			if strings.HasPrefix(sub, "root"+string(filepath.Separator)) {
				sub = strings.TrimPrefix(sub, "root"+string(filepath.Separator))
			}
			if stubs[filepath.Base(p)] {
				p = filepath.Join(inject, "stubs", parts[1])
			}
			replace[filepath.Join(repo, sub)] = p
		}
		return nil
	})
	if err != nil {
		return nil, err
	}

	// 1b. the hasher seam is a whole-file replacement; a changed tree that has added to that file (new methods, new
	// helpers) would no longer compile against it. In that case the tree's own file is kept and only the seam is
	// grafted onto it (an extra field carrying the harness seed, NewHasher sets it, Hash goes through vdet).
	if dst := filepath.Join(repo, "internal", "xruntime", "hasher.go"); replace[dst] != "" {
		if merged, ok := mergeHasher(dst); ok {
			out := filepath.Join(outDir, "src", "internal", "xruntime", "hasher.go")
			if err := os.MkdirAll(filepath.Dir(out), 0o755); err != nil {
				return nil, err
			}
			if err := os.WriteFile(out, []byte(merged), 0o644); err != nil {
				return nil, err
			}
			replace[dst] = out
			res.Skipped = append(res.Skipped, "internal/xruntime/hasher.go differs from the pinned shape: seam grafted onto the tree's own file")
		}
	}

	// 2. load and rewrite otter's own packages
	var patterns []string
	for _, d := range pkgDirs {
		if _, err := os.Stat(filepath.Join(repo, d)); err != nil {
			res.Skipped = append(res.Skipped, "package dir missing: "+d)
			continue
		}
		if d == "." {
			patterns = append(patterns, ".")
		} else {
			patterns = append(patterns, "./"+d)
		}
	}
	cfg := &packages.Config{
		Mode: packages.NeedName | packages.NeedFiles | packages.NeedCompiledGoFiles | packages.NeedSyntax |
			packages.NeedTypes | packages.NeedTypesInfo | packages.NeedImports | packages.NeedDeps,
		Dir: repo,
		Env: append(os.Environ(), "GOFLAGS=-mod=mod", "GOPROXY=off", "GOSUMDB=off", "GOTOOLCHAIN=local"),
	}
	pkgs, err := packages.Load(cfg, patterns...)
	if err != nil {
		return nil, fmt.Errorf("packages.Load: %w", err)
	}
	for _, pkg := range pkgs {
		if len(pkg.Errors) > 0 {
			var msgs []string
			for _, e := range pkg.Errors {
				msgs = append(msgs, e.Error())
			}
			return nil, fmt.Errorf("package %s does not type-check: %s", pkg.PkgPath, strings.Join(msgs, "; "))
		}
		relDir := strings.TrimPrefix(strings.TrimPrefix(pkg.PkgPath, modPath), "/")
		if relDir == "" {
			relDir = "."
		}
		consts := v.Consts[relDir]
		found := map[string]bool{}
		for i, file := range pkg.Syntax {
			fname := pkg.CompiledGoFiles[i]
			if _, replaced := replace[fname]; replaced {
				continue // file replaced wholesale (xruntime seams)
			}
			changed := rewriteFile(pkg.Fset, file, pkg.TypesInfo, consts, found, res)
			if !changed {
				continue
			}
			var buf bytes.Buffer
			if err := format.Node(&buf, pkg.Fset, file); err != nil {
				return nil, fmt.Errorf("print %s: %w", fname, err)
			}
			rel, _ := filepath.Rel(repo, fname)
			out := filepath.Join(outDir, "src", rel)
			if err := os.MkdirAll(filepath.Dir(out), 0o755); err != nil {
				return nil, err
			}
			if err := os.WriteFile(out, buf.Bytes(), 0o644); err != nil {
				return nil, err
			}
			replace[fname] = out
		}
		for name := range consts {
			if !found[name] {
				res.Skipped = append(res.Skipped, fmt.Sprintf("const %s.%s not found", relDir, name))
			}
		}
	}

	ov := map[string]any{"Replace": replace}
	b, _ := json.MarshalIndent(ov, "", " ")
	res.OverlayPath = filepath.Join(outDir, "overlay.json")
	if err := os.WriteFile(res.OverlayPath, b, 0o644); err != nil {
		return nil, err
	}
	return res, nil
}

// mergeHasher returns the tree's hasher.go with the vdet seam grafted on, when that file has more declarations than the
// pinned one (type Hasher, NewHasher, Hash). ok=false: use the whole-file replacement.
func mergeHasher(path string) (string, bool) {
	b, err := os.ReadFile(path)
	if err != nil {
		return "", false
	}
	src := string(b)
	if strings.Count(src, "\nfunc ") <= 2 {
		return "", false
	}
	const typ = "type Hasher[T comparable] struct {\n"
	const lit = "return Hasher[T]{\n"
	const hashSig = "func (h Hasher[T]) Hash(t T) uint64 {\n"
	if !strings.Contains(src, typ) || !strings.Contains(src, lit) || !strings.Contains(src, hashSig) {
		return "", false
	}
	src = strings.Replace(src, typ, typ+"\tvseed uint64\n", 1)
	src = strings.Replace(src, lit, lit+"\t\tvseed: vdet.NextSeed(),\n", 1)
	i := strings.Index(src, hashSig) + len(hashSig)
	j := strings.Index(src[i:], "\n}\n")
	if j < 0 {
		return "", false
	}
	src = src[:i] + "\treturn vdet.Hash(h.vseed, any(t))" + src[i+j:]
	const imp = "github.com/maypok86/otter/v2/internal/verif/vdet"
	switch {
	case strings.Contains(src, "import (\n"):
		src = strings.Replace(src, "import (\n", "import (\n\t\""+imp+"\"\n", 1)
	case strings.Contains(src, "import \"hash/maphash\"\n"):
		src = strings.Replace(src, "import \"hash/maphash\"\n", "import (\n\t\"hash/maphash\"\n\t\""+imp+"\"\n)\n", 1)
	default:
		return "", false
	}
	return src, true
}

func rewriteFile(fset *token.FileSet, file *ast.File, info *types.Info, consts map[string]string, found map[string]bool, res *Result) bool {
	changed := false
	base := filepath.Base(fset.Position(file.Pos()).Filename)

	// R1: imports
	for _, imp := range file.Imports {
		p, _ := strconv.Unquote(imp.Path.Value)
		switch p {
		case "sync":
			imp.Path.Value = strconv.Quote(modPath + "/internal/verif/vsync")
			if imp.Name == nil {
				imp.Name = ast.NewIdent("sync")
			}
			changed = true
			res.Rewrites["import sync"]++
		case "sync/atomic":
			imp.Path.Value = strconv.Quote(modPath + "/internal/verif/vatomic")
			if imp.Name == nil {
				imp.Name = ast.NewIdent("atomic")
			}
			changed = true
			res.Rewrites["import sync/atomic"]++
		}
	}

	needSched, needDet := false, false
	usesRuntime := false

	astutil.Apply(file, func(c *astutil.Cursor) bool {
		switch n := c.Node().(type) {
		case *ast.GoStmt:
			// R2: go f(args) -> managed thread, except the expiry ticker and the fake clock
			if base == "clock.go" {
				return true
			}
			if sel, ok := n.Call.Fun.(*ast.SelectorExpr); ok && sel.Sel.Name == "periodicCleanUp" {
				return true
			}
			pos := fset.Position(n.Pos())
			site := fmt.Sprintf("%s:%d", base, pos.Line)
			var stmts []ast.Stmt
			var args []ast.Expr
			for i, a := range n.Call.Args {
				id := ast.NewIdent(fmt.Sprintf("verifArg%d", i))
				stmts = append(stmts, &ast.AssignStmt{Lhs: []ast.Expr{id}, Tok: token.DEFINE, Rhs: []ast.Expr{a}})
				args = append(args, id)
			}
			call := &ast.CallExpr{Fun: n.Call.Fun, Args: args, Ellipsis: n.Call.Ellipsis}
			lit := &ast.FuncLit{Type: &ast.FuncType{Params: &ast.FieldList{}}, Body: &ast.BlockStmt{List: []ast.Stmt{&ast.ExprStmt{X: call}}}}
			goCall := &ast.ExprStmt{X: &ast.CallExpr{
				Fun:  &ast.SelectorExpr{X: ast.NewIdent("verifsched"), Sel: ast.NewIdent("Go")},
				Args: []ast.Expr{&ast.BasicLit{Kind: token.STRING, Value: strconv.Quote(site)}, lit},
			}}
			stmts = append(stmts, goCall)
			c.Replace(&ast.BlockStmt{List: stmts})
			needSched = true
			changed = true
			res.Rewrites["go stmt"]++
			return false
		case *ast.CallExpr:
			if sel, ok := n.Fun.(*ast.SelectorExpr); ok {
				if x, ok := sel.X.(*ast.Ident); ok && x.Name == "runtime" && isPkgIdent(info, x, "runtime") {
					switch sel.Sel.Name {
					case "Gosched": // R3
						n.Fun = &ast.SelectorExpr{X: ast.NewIdent("verifsched"), Sel: ast.NewIdent("Yield")}
						needSched = true
						changed = true
						res.Rewrites["runtime.Gosched"]++
					case "GOMAXPROCS":
						c.Replace(&ast.SelectorExpr{X: ast.NewIdent("verifdet"), Sel: ast.NewIdent("Procs")})
						needDet = true
						changed = true
						res.Rewrites["runtime.GOMAXPROCS"]++
						return false
					default:
						usesRuntime = true
					}
				}
			}
		case *ast.SelectorExpr:
			if x, ok := n.X.(*ast.Ident); ok && x.Name == "runtime" && isPkgIdent(info, x, "runtime") {
				if n.Sel.Name != "Gosched" && n.Sel.Name != "GOMAXPROCS" {
					usesRuntime = true
				}
			}
		case *ast.RangeStmt:
			// R4: deterministic map ranging
			if tv, ok := info.Types[n.X]; ok {
				if _, isMap := tv.Type.Underlying().(*types.Map); isMap {
					n.X = &ast.CallExpr{
						Fun:  &ast.SelectorExpr{X: ast.NewIdent("verifdet"), Sel: ast.NewIdent("SortedMap")},
						Args: []ast.Expr{n.X},
					}
					needDet = true
					changed = true
					res.Rewrites["map range"]++
				}
			}
		case *ast.ValueSpec:
			// R6: constant overrides
			for i, name := range n.Names {
				if lit, ok := consts[name.Name]; ok && i < len(n.Values) {
					if _, isConst := info.Defs[name].(*types.Const); isConst {
						n.Values[i] = &ast.BasicLit{Kind: token.INT, Value: lit}
						found[name.Name] = true
						changed = true
						res.Rewrites["const "+name.Name]++
					}
				}
			}
		}
		return true
	}, nil)

	if needSched {
		astutil.AddNamedImport(fset, file, "verifsched", modPath+"/internal/verif/vsched")
	}
	if needDet {
		astutil.AddNamedImport(fset, file, "verifdet", modPath+"/internal/verif/vdet")
	}
	if changed && !usesRuntime && !identUsed(file, "runtime") {
		hasRuntime := false
		for _, imp := range file.Imports {
			if imp != nil && imp.Path != nil {
				if p, _ := strconv.Unquote(imp.Path.Value); p == "runtime" {
					hasRuntime = true
				}
			}
		}
		if hasRuntime {
			astutil.DeleteImport(fset, file, "runtime")
		}
	}
	return changed
}

func isPkgIdent(info *types.Info, id *ast.Ident, path string) bool {
	if obj, ok := info.Uses[id].(*types.PkgName); ok {
		return obj.Imported().Path() == path
	}
	return false
}

func identUsed(file *ast.File, name string) bool {
	used := false
	ast.Inspect(file, func(n ast.Node) bool {
		if sel, ok := n.(*ast.SelectorExpr); ok {
			if x, ok := sel.X.(*ast.Ident); ok && x.Name == name {
				used = true
			}
		}
		return true
	})
	return used
}
