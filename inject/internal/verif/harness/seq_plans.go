package harness

import (
	"encoding/json"
	"fmt"
	"math"
)

func seqJob(p seqParams, depth, shards, budget int, need ...string) *Job {
	return &Job{Scenario: "cache.seq", Params: js(p), Depth: depth, Shards: shards, BudgetS: budget, Need: need}
}

// wheelAliasJobs: deadlines one full wheel turn ahead that share a bucket with the current tick (level 0: 64 ticks,
// level 1: 64*64 ticks), written late in a tick; the sweep of that bucket must re-file them, not fire them.
func wheelAliasJobs(kinds []string, thorough bool) []*Job {
	var jobs []*Job
	for _, origin := range []int64{1<<30 - 1, 1<<40 + tickNs - 7} {
		for _, kind := range []string{"writing", "custom"} {
			cfg := CacheCfg{Expiry: kind, TTL: 64*tickNs - 2, ClockStart: origin}
			a := []string{
				fmt.Sprintf("set 1 1 ttl=%d", 64*tickNs-2), fmt.Sprintf("set 1 1 ttl=%d", 63*tickNs+tickNs/2), fmt.Sprintf("set 2 1 ttl=%d", 64*64*tickNs-2),
				fmt.Sprintf("set 2 1 ttl=%d", 64*tickNs), "get 1", "adv 1", "adv 8", fmt.Sprintf("adv %d", tickNs), fmt.Sprintf("adv %d", 2*tickNs),
				fmt.Sprintf("adv %d", 63*tickNs), fmt.Sprintf("adv %d", 64*tickNs), "cleanup",
			}
			depth := 5
			if thorough {
				depth = 6
			}
			jobs = append(jobs, seqJob(seqParams{Cfg: cfg, Alphabet: a, Kinds: kinds}, depth, 4, 60, "cleanups-with-expiry"))
		}
	}
	return jobs
}

func init() {
	// ---- C03: every public operation on an expired-but-unswept key ----
	plans["C03"] = func(thorough bool) []*Job {
		var jobs []*Job
		// loader-calls: an expired entry handed to the loader as the old value of a *re*load is "reported as present"
		kinds := []string{"expired-observed", "expired-resurrected", "loader-calls"}
		_ = kinds
		cfgs03 := featureCfgs(true)
		// clock values beyond 2^62 (deadline arithmetic close to the saturation point) with an ordinary TTL
		cfgs03 = append(cfgs03, CacheCfg{Expiry: "writing", TTL: 100, ClockStart: 1 << 62}, CacheCfg{MaxSize: 2, Expiry: "accessing", TTL: 100, ClockStart: 1<<62 + 1<<61})
		for _, cfg := range cfgs03 {
			if cfg.Expiry == "" {
				continue
			}
			if !thorough && cfg.Refresh != "" && cfg.Expiry != "writing" && cfg.Expiry != "creating" {
				continue
			}
			var prefixes [][]string
			for _, w := range []string{"set 1", "sia 1", "cw 1", "load 1 val"} {
				for _, rd := range []string{"", "get 1"} {
					for _, adv := range []int64{99, 100, 101, 100 + tickNs - 1, 100 + tickNs + 1} {
						for _, cl := range []string{"", "cleanup"} {
							pre := []string{"set 2", w}
							if rd != "" {
								pre = append(pre, rd)
							}
							// an iterator obtained while the entry is live and ranged after its deadline
							pre = append(pre, "mkiter "+[]string{"all", "keys", "coldest"}[len(prefixes)%3])
							pre = append(pre, fmt.Sprintf("adv %d", adv))
							if cl != "" {
								pre = append(pre, cl)
							}
							prefixes = append(prefixes, pre)
						}
					}
				}
			}
			alpha := baseAlphabet([]int{1}, cfg, true)
			alpha = append(alpha, "refresh 1 val", "bulkrefresh 1,2 full", "save", "sea 1 1000", "sra 1 1000", "set 3", "get 2", "useiter")
			depth := 2
			p := seqParams{Cfg: cfg, Alphabet: alpha, Prefixes: prefixes, Kinds: kinds}
			jobs = append(jobs, seqJob(p, depth, 4, 120, "ops-on-expired-unswept"))
		}
		// a reload that is still queued (deferred executor) when its entry expires, and then ends in every way: a failed
		// reload must not make the expired entry visible again
		{
			cfg := CacheCfg{Expiry: "writing", TTL: 100, Refresh: "writing", RefreshTTL: 40, Executor: "deferred", ClockStart: 1 << 40}
			var prefixes [][]string
			for _, trig := range []string{"load 1 err", "load 1 val", "load 1 nf", "refresh 1 err", "refresh 1 val", "bulkrefresh 1,2 err", "bulk 1,2 err"} {
				for _, adv := range []int64{58, 59, 60, 60 + tickNs} {
					// the maintenance queued by the writes runs first, so that the reload is the only queued task afterwards
					prefixes = append(prefixes, []string{"set 2", "set 1", "runexec", "adv 41", trig, fmt.Sprintf("adv %d", adv)})
				}
			}
			alpha := []string{"runexec", "getq 1", "get 1", "gete 1", "all", "coldest", "inv 1", "sea 1 50", "sia 1", "cipw 1", "adv 1", "cleanup", "save", "useiter"}
			jobs = append(jobs, seqJob(seqParams{Cfg: cfg, Alphabet: alpha, Prefixes: prefixes, Kinds: kinds}, 3, 4, 120, "ops-on-expired-unswept"))
		}
		// the schedule dimension: the clock moves between operations of concurrent threads (coarse interleaving)
		for _, ex := range []string{"caller"} {
			cfg := CacheCfg{Expiry: "writing", TTL: 100, Executor: ex, ClockStart: 1 << 40}
			for _, op := range []string{"set 1", "inv 1", "sea 1 50", "get 1", "cw 1", "all"} {
				p := concParams{Label: "clock‖" + op, Cfg: cfg, Setup: []string{"set 1"}, Threads: [][]string{{"adv 100"}, {op, "getq 1"}}, Oracles: []string{"expired"}}
				jobs = append(jobs, &Job{Scenario: "cache.conc", Params: js(p), PB: 2, Coarse: true, Shards: 1, BudgetS: 30, Need: []string{"seq-equiv-checked"}})
			}
			// fine-grained: the clock crosses the deadline while the operation is between two of its steps
			for _, op := range []string{"set 1", "sia 1", "inv 1", "sea 1 50", "get 1", "gete 1", "cw 1", "ci 1", "cia 1", "cipw 1", "load 1 val"} {
				p := concParams{Label: "clock‖" + op + "(fine)", Cfg: cfg, Setup: []string{"set 1", "set 2"}, Threads: [][]string{{"adv 100"}, {op, "getq 1"}}, Oracles: []string{"interleaving-equiv"}}
				jobs = append(jobs, &Job{Scenario: "cache.conc", Params: js(p), PB: 2, Shards: 2, BudgetS: 30, Need: []string{"interleavings-explained"}})
			}
			// every operation on an expired-but-unswept key while a load of that key is in flight
			for _, op := range []string{"cc 1", "ciac 1", "cipc 1", "get 1", "getq 1", "gete 1", "inv 1", "sea 1 50"} {
				p := concParams{Label: "load‖" + op, Cfg: cfg, Setup: []string{"set 1", "adv 100"}, Threads: [][]string{{"load 1 val"}, {op, "getq 1"}}, Oracles: []string{"expired-during-load"}}
				jobs = append(jobs, &Job{Scenario: "cache.conc", Params: js(p), PB: 12, Coarse: true, Shards: 1, BudgetS: 30, Need: []string{"ops-on-expired-during-load"}})
			}
		}
		return jobs
	}

	// ---- C07 (+ sequential part of C04): removals only for a sanctioned, truthful reason ----
	c07 := func(kinds []string) func(thorough bool) []*Job {
		return func(thorough bool) []*Job {
			var jobs []*Job
			cfgs := []CacheCfg{
				{MaxSize: 2}, {MaxSize: 3}, {MaxWeight: 4}, {MaxWeight: 10},
				{},
				{MaxSize: 2, Expiry: "writing", TTL: 100, ClockStart: 1 << 40},
				{MaxWeight: 4, Expiry: "accessing", TTL: 100, ClockStart: 5},
				{Expiry: "custom", TTL: 100, ClockStart: 1 << 40},
			}
			for _, cfg := range cfgs {
				keys := []int{1, 2, 3, 4}
				var a []string
				for _, k := range keys {
					a = append(a, fmt.Sprintf("set %d", k), fmt.Sprintf("get %d", k), fmt.Sprintf("inv %d", k))
					if cfg.MaxWeight > 0 {
						a = append(a, fmt.Sprintf("set %d 0", k), fmt.Sprintf("set %d 2", k), fmt.Sprintf("set %d 4", k), fmt.Sprintf("set %d 5", k))
					}
				}
				a = append(a, "cleanup")
				if cfg.MaxSize > 0 || cfg.MaxWeight > 0 {
					a = append(a, "setmax 0", "setmax 1", "setmax 2", "setmax 3", "setmax 5")
				}
				if cfg.Expiry != "" {
					a = append(a, "adv 60", "adv 100", fmt.Sprintf("adv %d", tickNs), "sea 1 500", "sea 2 9223372036854775807")
				}
				depth, budget := 4, 60
				if thorough {
					depth, budget = 5, 600
				}
				jobs = append(jobs, seqJob(seqParams{Cfg: cfg, Alphabet: a, Kinds: kinds}, depth, 4, budget))
				if cfg.MaxWeight == 4 && cfg.Expiry == "" {
					// small-scope transfer threshold (2 instead of 1000): loops bounded by it give up within reach
					j := seqJob(seqParams{Label: "small-transfer-threshold", Cfg: cfg, Alphabet: a, Kinds: kinds}, depth, 4, budget)
					j.Variant = "small"
					jobs = append(jobs, j)
				}
				// non-initial states: entries spread over the policy's queues (a zero-weight entry that reached the
				// main space by being re-weighed, promoted entries, entries still in the window)
				if cfg.MaxWeight > 0 {
					prefixes := [][]string{
						{"set 1 2", "set 1 0"},
						{"set 1 2", "set 1 0", "set 2 2", "get 2", "cleanup"},
						{"set 1 2", "set 1 0", "set 2 1", "get 2", "cleanup", "set 3 1"},
						{"set 1 1", "set 2 1", "get 1", "get 1", "cleanup", "set 1 0", "set 3 2"},
					}
					jobs = append(jobs, seqJob(seqParams{Cfg: cfg, Alphabet: a, Kinds: kinds, Prefixes: prefixes}, depth-1, 4, budget))
				}
			}
			return jobs
		}
	}
	c07kinds := []string{"unjustified-overflow", "untruthful-expiration", "overflow-without-bound", "zero-weight-evicted", "unexpected-removal", "missing-entry"}
	c07base := c07(c07kinds)
	plans["C07"] = func(thorough bool) []*Job { return append(c07base(thorough), wheelAliasJobs(c07kinds, thorough)...) }
	c04seq := c07([]string{"bound-exceeded", "zero-weight-evicted"})
	c04conc := plans["C04"]
	plans["C04"] = func(thorough bool) []*Job {
		jobs := c04conc(thorough)
		for _, j := range c04seq(thorough) {
			var sp seqParams
			if err := json.Unmarshal(j.Params, &sp); err != nil {
				panic(err)
			}
			if sp.Cfg.MaxSize == 0 && sp.Cfg.MaxWeight == 0 {
				continue // the size bound only exists in bounded configurations
			}
			j.Need = []string{"overflow-evictions"}
			jobs = append(jobs, j)
		}
		return jobs
	}

	// ---- C10: load outcomes vs state and results ----
	plans["C10"] = func(thorough bool) []*Job {
		var jobs []*Job
		// concurrent part: a key volunteered by one caller's bulk loader while another caller's load of that key is in
		// flight and then fails (or succeeds, or is a reload of a present key): the volunteered value is cached
		{
			pb, budget := 2, 60
			if thorough {
				pb, budget = 3, 600
			}
			plain := CacheCfg{}
			ref := CacheCfg{Refresh: "writing", RefreshTTL: 40, ClockStart: 1 << 40}
			or := []string{"volunteered", "singleflight", "audit"}
			for _, other := range []string{"load 1 err", "load 1 panic", "load 1 val", "load 1 nf", "bulk 1,3 err", "bulk 1 full"} {
				for _, vol := range []string{"bulk 2 extra=1", "bulk 2,3 extra=1"} {
					jobs = append(jobs, concJob("C10:"+other+"‖"+vol, plain, nil, [][]string{{other}, {vol}}, or, "native", pb, false, 4, budget, "volunteered-judged"))
				}
			}
			// the key is present and being reloaded (explicit refresh that fails) while it is volunteered
			for _, other := range []string{"refresh 1 err", "bulkrefresh 1,3 err"} {
				jobs = append(jobs, concJob("C10:"+other+"‖bulk 2 extra=1", ref, []string{"set 1"}, [][]string{{other}, {"bulk 2 extra=1"}}, or, "native", pb, false, 4, budget, "volunteered-judged"))
				jobs = append(jobs, concJob("C10:"+other+"‖bulkrefresh 2 extra=1", ref, []string{"set 1", "set 2"}, [][]string{{other}, {"bulkrefresh 2 extra=1"}}, or, "native", pb, false, 4, budget, "volunteered-judged"))
			}
		}
		// hook-mismatch: a load that installs over an absent or expired key is a creation ("a successful load caches the value":
		// with the wrong calculator hook the installed entry is born expired or keeps a stale deadline)
		kinds := []string{"result-mismatch", "unsupplied-key-in-result", "loader-calls", "phantom-value", "missing-entry", "expired-observed", "event-missing", "wrong-cause", "unexpected-removal", "hook-mismatch"}
		cfgs := []CacheCfg{
			{},
			{Refresh: "writing", RefreshTTL: 40, ClockStart: 1 << 40},
			{Expiry: "writing", TTL: 100, Refresh: "writing", RefreshTTL: 40, ClockStart: 1 << 40},
			{MaxSize: 4, Expiry: "writing", TTL: 100, Refresh: "writing", RefreshTTL: 40, ClockStart: 1 << 40},
			{Expiry: "creating", TTL: 100, Refresh: "creating", RefreshTTL: 40, ClockStart: 1 << 40},
			{CancelledCtx: true},
		}
		var lists []string
		ks := []int{1, 2, 3}
		for _, a := range ks {
			lists = append(lists, fmt.Sprint(a))
			for _, b := range ks {
				lists = append(lists, fmt.Sprintf("%d,%d", a, b))
				for _, c := range ks {
					lists = append(lists, fmt.Sprintf("%d,%d,%d", a, b, c))
				}
			}
		}
		shapes := []string{"full", "partial", "extra", "partialextra", "empty", "err", "nf", "panic"}
		var alpha []string
		for _, l := range lists {
			for _, s := range shapes {
				alpha = append(alpha, fmt.Sprintf("bulk %s %s", l, s))
			}
		}
		// a failing loader that hands back a map as well (volunteered key / partial): a few key lists suffice
		for _, l := range []string{"1", "1,2", "2,3", "3,1,3"} {
			alpha = append(alpha, fmt.Sprintf("bulk %s errextra", l), fmt.Sprintf("bulk %s errpartial", l))
		}
		for _, k := range ks {
			for _, o := range []string{"val", "err", "valerr", "nf", "panic"} {
				alpha = append(alpha, fmt.Sprintf("load %d %s", k, o))
			}
		}
		for _, cfg := range cfgs {
			// contents per key: a(bsent) f(resh) r(efresh-due) e(xpired-unswept)
			var prefixes [][]string
			states := []byte("afre")
			for _, s1 := range states {
				for _, s2 := range states {
					for _, s3 := range states {
						st := []byte{s1, s2, s3}
						var pre []string
						for i, c := range st {
							if c == 'e' {
								pre = append(pre, fmt.Sprintf("set %d", i+1))
							}
						}
						pre = append(pre, "adv 60")
						for i, c := range st {
							if c == 'r' {
								pre = append(pre, fmt.Sprintf("set %d", i+1))
							}
						}
						// 45: past every deadline; 40: the expired entries are exactly at their deadline (and the refresh-due ones
						// exactly at their refresh time) when the loading call arrives
						seconds := []int{45}
						if cfg.Expiry == "creating" || cfg.MaxSize == 0 && cfg.Expiry == "writing" {
							seconds = []int{45, 40}
						}
						for _, second := range seconds {
							pp := append(append([]string{}, pre...), fmt.Sprintf("adv %d", second))
							for i, c := range st {
								if c == 'f' {
									pp = append(pp, fmt.Sprintf("set %d", i+1))
								}
							}
							prefixes = append(prefixes, pp)
						}
					}
				}
			}
			if cfg.Expiry == "" && cfg.Refresh == "" {
				prefixes = [][]string{{}, {"set 1"}, {"set 1", "set 2"}, {"set 1", "set 2", "set 3"}, {"set 2"}, {"set 3"}}
			}
			depth := 2 // every loading call followed by every loading call (the second one judges the state the first one left)
			jobs = append(jobs, seqJob(seqParams{Cfg: cfg, Alphabet: alpha, Prefixes: prefixes, Kinds: kinds}, depth, 8, 300))
		}
		return jobs
	}

	// ---- C12: deadlines computed exactly and without overflow ----
	plans["C12"] = func(thorough bool) []*Job {
		var jobs []*Job
		// untruthful-expiration: an entry removed as expired before its deadline is not "visible exactly while the clock is before its expiration time"
		kinds := []string{"deadline-mismatch", "deadline-wrapped", "refresh-deadline-mismatch", "invisible-before-deadline", "visible-at-deadline", "missing-entry", "hook-mismatch", "untruthful-expiration", "entry-mismatch"}
		origins := []int64{0, 1, 1<<40 + 12345, 1_700_000_000_000_000_000, 1 << 62}
		for _, origin := range origins {
			durs := []int64{1, 2, 1 << 30, math.MaxInt64 - origin - 1, math.MaxInt64 - origin, math.MaxInt64/2 + 1, math.MaxInt64}
			if origin > 0 {
				durs = append(durs, math.MaxInt64-origin+1)
			}
			for _, kind := range []string{"creating", "writing", "accessing", "custom"} {
				for _, ref := range []string{"", "writing", "creating"} {
					if !thorough && ref == "writing" && kind == "accessing" {
						continue
					}
					if ref == "creating" && kind != "writing" && !(thorough && kind == "creating") {
						continue
					}
					cfg := CacheCfg{Expiry: kind, TTL: 1000, Refresh: ref, ClockStart: origin}
					if ref != "" {
						cfg.RefreshTTL = 500
					}
					var a []string
					for _, d := range durs {
						a = append(a, fmt.Sprintf("set 1 1 ttl=%d", d), fmt.Sprintf("get 1 ttl=%d", d), fmt.Sprintf("sea 1 %d", d),
							fmt.Sprintf("cw 1 1 ttl=%d", d), fmt.Sprintf("load 1 val 1 ttl=%d", d), fmt.Sprintf("sia 2 1 ttl=%d", d))
						if ref != "" {
							a = append(a, fmt.Sprintf("set 1 1 rttl=%d", d), fmt.Sprintf("sra 1 %d", d), fmt.Sprintf("refresh 1 val 1 rttl=%d", d), fmt.Sprintf("refresh 1 err 1 rttl=%d", d))
						}
					}
					a = append(a, "gete 1", "adv 1", "adv 7", "inv 1")
					depth := 3
					if thorough {
						depth = 4
					}
					jobs = append(jobs, seqJob(seqParams{Cfg: cfg, Alphabet: a, Kinds: kinds, Probe: true}, depth, 2, 300, "probes", "hook-checks"))
					if ref != "" && origin == 0 {
						// the other node types that carry both deadlines (size- and weight-bounded)
						for _, b := range []CacheCfg{{MaxSize: 8}, {MaxWeight: 100}} {
							bc := cfg
							bc.MaxSize, bc.MaxWeight = b.MaxSize, b.MaxWeight
							jobs = append(jobs, seqJob(seqParams{Cfg: bc, Alphabet: a, Kinds: kinds, Probe: true}, depth, 2, 300, "probes", "hook-checks"))
						}
					}
				}
			}
		}
		return jobs
	}

	// ---- C13: expired entries swept within one tick ----
	plans["C13"] = func(thorough bool) []*Job {
		var jobs []*Job
		kinds := []string{"timer-not-swept", "untruthful-expiration", "missing-entry", "expiration-misreported"}
		hour := int64(3600) * 1e9
		ttls := []int64{1, tickNs - 1, tickNs, 65 * tickNs, hour + hour/5, 41 * hour, 7 * 24 * hour, math.MaxInt64 / 2}
		advs := []int64{1, tickNs, 63 * tickNs, 64 * tickNs, 65 * tickNs, 64 * tickNs * 64, int64(1.22 * float64(hour)), 39 * hour, 156 * hour, 13 * 24 * hour, 300 * 365 * 24 * hour}
		for _, origin := range []int64{0, 1<<30 - 1, 1<<40 + 12345} {
			for _, kind := range []string{"writing", "accessing", "custom"} {
				if !thorough && kind == "accessing" && origin != 0 {
					continue
				}
				cfg := CacheCfg{Expiry: kind, TTL: 1000, ClockStart: origin}
				var a []string
				for _, k := range []int{1, 2} {
					for _, t := range ttls {
						a = append(a, fmt.Sprintf("set %d 1 ttl=%d", k, t))
					}
					a = append(a, fmt.Sprintf("get %d", k), fmt.Sprintf("inv %d", k), fmt.Sprintf("sea %d %d", k, 70*tickNs))
					if kind == "custom" {
						// a calculator that returns a non-positive duration creates an entry without a deadline;
						// a later per-entry deadline must still be scheduled
						a = append(a, fmt.Sprintf("set %d 1 ttl=-1", k), fmt.Sprintf("sea %d %d", k, 2*tickNs))
					}
				}
				for _, d := range advs {
					a = append(a, fmt.Sprintf("adv %d", d))
				}
				a = append(a, "cleanup")
				depth, budget := 4, 80
				if thorough {
					depth, budget = 5, 600
				}
				jobs = append(jobs, seqJob(seqParams{Cfg: cfg, Alphabet: a, Kinds: kinds}, depth, 4, budget, "cleanups-with-expiry"))
			}
		}
		// size-bounded and expiring: a full cache that still holds long expired entries when the next write arrives
		for _, cfg := range []CacheCfg{{MaxSize: 2, Expiry: "writing", TTL: 1000, ClockStart: 1 << 40}, {MaxWeight: 3, Expiry: "accessing", TTL: 1000, ClockStart: 1 << 40}} {
			a := []string{"set 1", "set 2", "set 3", "set 4", "get 1", "inv 2", "adv 100", fmt.Sprintf("adv %d", tickNs), fmt.Sprintf("adv %d", 2*tickNs+1000), "cleanup", "setmax 1", "setmax 3"}
			depth := 5
			if thorough {
				depth = 6
			}
			jobs = append(jobs, seqJob(seqParams{Cfg: cfg, Alphabet: a, Kinds: kinds}, depth, 4, 80, "cleanups-with-expiry", "overflow-evictions"))
		}
		// a deadline-extending read whose read-buffer event is dropped (ring of 4 in the small-scope build, the 5th
		// read is refused): the timer stays in its old bucket and must be re-filed when that bucket is swept
		for _, kind := range []string{"accessing", "custom"} {
			cfg := CacheCfg{Expiry: kind, TTL: 20 * tickNs, ClockStart: 1 << 40}
			ext := "get 1"
			if kind == "custom" {
				ext = fmt.Sprintf("sea 1 %d", 20*tickNs)
			}
			pre := []string{"set 1", fmt.Sprintf("set 2 1 ttl=%d", 1000*tickNs), "get 2", "get 2", "get 2", "get 2", fmt.Sprintf("adv %d", 5*tickNs), ext}
			a := []string{fmt.Sprintf("adv %d", tickNs), fmt.Sprintf("adv %d", 5*tickNs), fmt.Sprintf("adv %d", 17*tickNs), "cleanup", "get 2", ext}
			depth := 4
			if thorough {
				depth = 6
			}
			j := seqJob(seqParams{Cfg: cfg, Alphabet: a, Kinds: kinds, Prefixes: [][]string{pre}}, depth, 2, 120, "cleanups-with-expiry", "read-buffer-saturated")
			j.Variant = "small"
			jobs = append(jobs, j)
		}
		return jobs
	}

	// ---- C20: statistics ----
	plans["C20"] = func(thorough bool) []*Job {
		var jobs []*Job
		kinds := []string{"lookup-count", "load-count", "eviction-count", "counter-decreased"}
		for _, cfg := range []CacheCfg{
			{},
			{MaxSize: 2},
			{MaxWeight: 4},
			{MaxSize: 2, Expiry: "writing", TTL: 100, Refresh: "writing", RefreshTTL: 40, ClockStart: 1 << 40},
			{Expiry: "accessing", TTL: 100, ClockStart: 1 << 40},
			{MaxSize: 2, Executor: "deferred"},
			// every loading call is made with a context that is already cancelled: the loader is still invoked (and counted) exactly as otherwise
			{Refresh: "writing", RefreshTTL: 40, ClockStart: 1 << 40, CancelledCtx: true},
		} {
			a := baseAlphabet([]int{1, 2, 3}, cfg, true)
			a = append(a, "refresh 1 val", "refresh 2 err")
			depth, budget := 3, 60
			if thorough {
				depth, budget = 4, 600
			}
			jobs = append(jobs, seqJob(seqParams{Cfg: cfg, Alphabet: a, Kinds: kinds, Stats: true}, depth, 4, budget))
		}
		// byte-size like weights: the cumulative eviction weight passes 2^32 after a few evictions
		{
			cfg := CacheCfg{MaxWeight: 4 << 28, WeightShift: 28}
			a := []string{"set 1 4", "set 2 3", "set 3 15", "set 4 9", "set 1 1", "get 1", "inv 2", "setmax 0", fmt.Sprintf("setmax %d", uint64(4)<<28), "cleanup"}
			depth := 5
			if thorough {
				depth = 6
			}
			jobs = append(jobs, seqJob(seqParams{Cfg: cfg, Alphabet: a, Kinds: kinds, Stats: true}, depth, 4, 60, "overflow-evictions"))
		}
		// refresh tasks that wait in a queued executor while the key is written, invalidated or read again
		for _, cfg := range []CacheCfg{
			{MaxSize: 3, Refresh: "writing", RefreshTTL: 40, Executor: "deferred", ClockStart: 1 << 40},
			{Expiry: "writing", TTL: 100, Refresh: "creating", RefreshTTL: 40, Executor: "deferred", ClockStart: 1 << 40},
		} {
			a := []string{"set 1", "set 2", "refresh 1 val", "refresh 1 err", "load 1 val", "get 1", "inv 1", "adv 41", "runexec", "bulkrefresh 1,2 full"}
			depth := 4
			if thorough {
				depth = 6
			}
			jobs = append(jobs, seqJob(seqParams{Cfg: cfg, Alphabet: a, Kinds: kinds, Stats: true}, depth, 4, 60))
		}
		return jobs
	}

	// ---- C19: save / load round trip at every reachable state ----
	plans["C19"] = func(thorough bool) []*Job {
		var jobs []*Job
		cfgs := featureCfgs(true)
		// an executor that has not run the scheduled maintenance yet when the cache is saved
		cfgs = append(cfgs,
			CacheCfg{MaxSize: 3, Executor: "deferred"},
			CacheCfg{MaxSize: 3, Expiry: "writing", TTL: 100, Refresh: "writing", RefreshTTL: 40, Executor: "deferred", ClockStart: 1 << 40},
			CacheCfg{MaxWeight: 4, Executor: "deferred"})
		for _, cfg := range cfgs {
			if !thorough && (cfg.Expiry == "creating" || cfg.Expiry == "custom") {
				continue
			}
			if cfg.MaxSize > 0 {
				cfg.MaxSize = 3
			}
			var a []string
			for _, k := range []int{1, 2, 3} {
				a = append(a, fmt.Sprintf("set %d", k), fmt.Sprintf("get %d", k), fmt.Sprintf("inv %d", k))
				if cfg.MaxWeight > 0 {
					a = append(a, fmt.Sprintf("set %d 2", k), fmt.Sprintf("set %d 0", k))
				}
				if cfg.Expiry != "" {
					a = append(a, fmt.Sprintf("sea %d 30", k))
				}
				if cfg.Refresh != "" {
					a = append(a, fmt.Sprintf("sra %d 10", k))
				}
			}
			if cfg.Expiry != "" || cfg.Refresh != "" {
				a = append(a, "adv 1", "adv 39", "adv 60")
			}
			if cfg.Executor == "deferred" {
				a = append(a, "runexec")
			}
			depth, budget := 4, 90
			if thorough {
				depth, budget = 5, 900
			}
			p := seqParams{Cfg: cfg, Alphabet: a, Persist: &persistParams{TargetMax: []int64{-1, 1, 2, 10}},
				Kinds: []string{"no-seq-kinds"}}
			jobs = append(jobs, seqJob(p, depth, 4, budget, "round-trips"))
		}
		return jobs
	}

	// ---- C11: refresh (sequential part) ----
	plans["C11"] = func(thorough bool) []*Job {
		var jobs []*Job
		kinds := []string{"result-mismatch", "loader-calls", "refresh-deadline-mismatch", "deadline-mismatch", "refresh-channel", "phantom-value", "missing-entry", "wrong-cause", "unexpected-removal", "event-missing", "hook-mismatch", "inflight-left", "refresh-result-wrong"}
		for _, ref := range []string{"creating", "writing"} {
			for _, exp := range []string{"", "writing", "accessing"} {
				for _, ex := range []string{"caller", "deferred"} {
					if exp == "accessing" && (ref == "creating" || ex == "deferred") && !thorough {
						continue
					}
					cfg := CacheCfg{Refresh: ref, RefreshTTL: 40, Expiry: exp, Executor: ex, ClockStart: 1 << 40}
					if exp != "" {
						cfg.TTL = 100
					}
					var a []string
					for _, k := range []int{1, 2} {
						a = append(a, fmt.Sprintf("set %d", k), fmt.Sprintf("load %d val", k), fmt.Sprintf("load %d err", k), fmt.Sprintf("load %d nf", k),
							fmt.Sprintf("refresh %d val", k), fmt.Sprintf("refresh %d err", k), fmt.Sprintf("refresh %d nf", k),
							fmt.Sprintf("get %d", k), fmt.Sprintf("inv %d", k), fmt.Sprintf("sra %d 10", k))
					}
					a = append(a, "bulk 1,2 full", "bulk 1,2 partial", "bulk 1,2 err", "bulkrefresh 1,2 full", "bulkrefresh 1,2 partial", "bulkrefresh 1,2 err", "bulkrefresh 1,1 full",
						"bulkrefresh 1,2 panic", "bulk 1,2 panic", "refresh 1 panic", "load 1 panic", "bulk 1,2 errextra", "bulkrefresh 1,2 errextra",
						"adv 39", "adv 40", "adv 41", "adv 100")
					if ex == "deferred" {
						a = append(a, "runexec")
					}
					depth, budget := 4, 90
					if thorough {
						depth, budget = 5, 900
					}
					jobs = append(jobs, seqJob(seqParams{Cfg: cfg, Alphabet: a, Kinds: kinds}, depth, 4, budget, "ops-on-refresh-due", "refresh-results"))
				}
			}
		}
		// refresh not configured: no channel
		jobs = append(jobs, seqJob(seqParams{Cfg: CacheCfg{}, Alphabet: []string{"set 1", "refresh 1 val", "bulkrefresh 1,2 full", "load 1 val"}, Kinds: kinds}, 2, 1, 30))
		return jobs
	}
}
