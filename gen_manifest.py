#!/usr/bin/env python3
"""Regenerates MANIFEST.json from the table below (kept in one place so it is always schema-valid)."""
import json, sys
ENV = "GOFLAGS=-mod=mod GOPROXY=off GOSUMDB=off GOTOOLCHAIN=local"
claimed = {
 "C04": dict(
   text="Exhaustive preemption-bounded exploration of concurrent cache histories (update/insert/invalidate/SetMaximum, weight changes; caller-runs and default executors, capacity 1-3): at quiescence after CleanUp the total weight is within GetMaximum, oversized entries are gone, zero-weight entries were never evicted for size; then the maximum is lowered to 1 and to 0 and the bound is checked again. Includes all operation pairs, all triples (three threads, one operation each) and all two-operations-against-one matrices on a full two-entry cache.",
   note="2-3 threads x 1-2 ops, preemption bound 2 (quick; 1 for most triples) / 3 (thorough; 2 for triples); SC interleavings at sync/atomic granularity.",
   technique="stateless model checking of the implementation: controlled scheduler + preemption-bounded DFS, quiescence invariant",
   ref="5/C04"),
 "C05": dict(
   text="Same exploration with an injected structural audit at quiescence: every live table node is linked exactly once in the deque matching its queue type (and in one timer-wheel slot), every linked node is the live table node of its key, per-queue weight sums equal the running totals; public views (WeightedSize, EstimatedSize, Hottest/Coldest vs All) agree.",
   note="Audit code is verification-only (build tag verif, injected by overlay); bounds as C04.",
   technique="stateless model checking of the implementation: controlled scheduler + preemption-bounded DFS, structural audit",
   ref="5/C05"),
 "C06": dict(
   text="Same exploration with an event ledger: every value ever installed is either present or was delivered exactly once to OnAtomicDeletion and exactly once to OnDeletion, with its key, a cause justified by what removed it, equal causes in both handlers, and per-key atomic order consistent with install order.",
   note="Unique value per write makes the ledger a set comparison; bounds as C04.",
   technique="stateless model checking of the implementation: controlled scheduler + preemption-bounded DFS, event ledger",
   ref="5/C06"),
 "C14": dict(
   text="All interleavings (preemption bound 1-2 quick, 2-3 thorough) of writers, readers, CleanUp and every other holder of the eviction lock with the default executor (spawned maintenance goroutines are managed threads): when every goroutine has finished and without any further cache call the write buffer is empty, the drain status is idle, notifications are delivered and the bound holds; deadlock/livelock are violations.",
   note="MaximumSize 2-8, 2-3 threads; the executor's `go` is turned into a managed thread by the overlay.",
   technique="stateless model checking of the implementation: controlled scheduler + preemption-bounded DFS over the drain-status protocol",
   ref="5/C14"),
 "C15": dict(
   text="All interleavings (pb 2-3 quick, 3-4 thorough) of get/compute/delete/range/clear on the real table with forced bucket and meta-byte collisions, across grow, shrink, clear and two concurrent growers: history linearizable against a map (Wing-Gong search), callbacks exactly once, Size == keys and nothing lost at quiescence, Range weakly consistent (no duplicates, no stale entries, nothing present throughout is missed).",
   note="Small-scope table constants (2 root buckets) in most scenarios, native 32-bucket table in thorough; hashes chosen by the harness.",
   technique="stateless model checking of the implementation: controlled scheduler + preemption-bounded DFS + linearizability search",
   ref="5/C15"),
 "C16": dict(
   text="Exhaustive preemption-bounded exploration (all interleavings of 2-3 producers and the consumer on the real MPSC queue at sync/atomic granularity, pb<=2-3 quick, pb<=3-5 thorough) across chunk switches and the full boundary; oracle: exactly-once, per-producer order, justified refusals, termination.",
   note="SC interleavings of the intercepted atomics; small queue capacities (2..16); plain accesses assumed race-free.",
   technique="stateless model checking of the implementation: controlled scheduler + preemption-bounded DFS",
   ref="5/C16"),
 "C17": dict(
   text="All interleavings of 2-3 recorders with the draining consumer on the real striped ring buffer, with the ring pre-positioned at wrap-around and full, first-use initialisation, stripe attach and table doubling (random stripe answers as environment choices): delivered entries are a sub-multiset of the successfully recorded ones, never twice, Len within capacity, everything recorded is delivered by a drain at quiescence.",
   note="Ring size 4 (small-scope build) and 16 (native); pb 2, env deviations 2 (quick).",
   technique="stateless model checking of the implementation: controlled scheduler + preemption/deviation-bounded DFS",
   ref="5/C17"),
}
SEQ = "explicit-state exploration of the implementation: BFS over operation sequences on the real cache against a reference model, canonical-state dedup"
claimed.update({
 "C01": dict(
   text="Every operation sequence up to depth 3 (quick) / 4 (thorough) over a ~100-symbol alphabet (all public operations, loaders with every outcome, bulk shapes, clock advances incl. exact tick boundaries, CleanUp, SetMaximum) on keys {1,2,3}, in every feature combination (unbounded/MaximumSize/MaximumWeight x 5 expiry kinds x refresh on/off, plus deferred executor and InitialCapacity variants), replayed on a fresh real cache and compared at every step with a map-with-deadlines model: return values, callbacks, loader calls, deletion events and their causes, All() and GetEntryQuietly per key.",
   note="Model removal is driven by the cache's own OnAtomicDeletion events; the eviction victim, iteration order and EstimatedSize are not asserted. Dedup merges states with equal canonical snapshots (a wrong merge can only lose coverage, never raise an alarm).",
   technique=SEQ, ref="5/C01"),
 "C03": dict(
   text="From every way of reaching the expired-but-unswept state (4 writers x optional read x 5 clock offsets around the deadline and the timer tick x optional CleanUp) every public operation (incl. Refresh, BulkRefresh, SaveCacheTo, iterators, per-entry deadline setters) followed by every observer, in all expiring configurations: the key must behave as absent and must not become visible again except by a write or completed load.",
   note="Sequential exhaustive product (depth 2 from 80 prefixes per configuration) plus a coarse two-thread clock interleaving.",
   technique=SEQ, ref="5/C03"),
 "C07": dict(
   text="All sequences up to depth 4/5 of inserts with weights {0,1,2,max,max+1}, updates, reads, invalidations, SetMaximum {0,1,2,3,5}, clock advances and CleanUp on 4 keys: every automatic removal is judged when reported - Overflow only if the running total weight exceeded the maximum (or the entry alone does), Expiration only if the deadline passed; none in an unbounded cache; zero-weight entries never.",
   note="Running total = model weight after the operation's own writes minus evictions already judged.",
   technique=SEQ, ref="5/C07"),
 "C10": dict(
   text="Product of cache contents per key in {absent, fresh, refresh-due, expired-unswept}^3 x all 39 key lists of length <=3 over 3 keys (with duplicates) x 8 bulk loader shapes (full, partial, extra, partial+extra, empty, error, ErrNotFound, panic) and Get x 5 loader outcomes, in 5 configurations: result maps, errors, cache contents after the call and loader argument lists against the model. Concurrent part (preemption bound 2/3): a key volunteered by one caller's bulk loader while another caller's load / reload of that key is in flight and fails, succeeds or reports not-found: the volunteered value is what the cache holds unless something else may decide the key.",
   note="Same-goroutine executor; behaviour of panicking reloads is not asserted.",
   technique=SEQ + "; plus stateless model checking (controlled scheduler + preemption-bounded DFS) for the concurrent part", ref="5/C10"),
 "C11": dict(
   text="All sequences up to depth 3/4 of reads/writes/loads/Refresh/BulkRefresh with every reload outcome, clock advances to refresh deadline -1/0/+1 and to expiry, on 2 keys, refresh {creating, writing} x expiry {none, writing, accessing} x executor {same-goroutine, deferred with an explicit run-executor symbol}: stale reads return the cached value and trigger exactly one Reload(key, old), fresh reads none, success swaps, failure keeps value and expiry, not-found removes, each explicit Refresh delivers exactly one result, nil channel without a refresh policy.",
   note="Concurrent readers during an in-flight reload are covered by the C08/C09 scenarios.",
   technique=SEQ, ref="5/C11"),
 "C12": dict(
   text="Product of clock origin {0,1,2^40+12345,1.7e18,2^62} x duration {1,2,2^30,MaxInt64-now-1,MaxInt64-now,MaxInt64-now+1,MaxInt64/2+1,MaxInt64} x hook (create, update, read, SetExpiresAfter, refresh create/update/reload/failure, SetRefreshableAfter) x calculator kind, with 2-op chains: stored deadlines equal time + returned duration (saturating), the entry is visible at deadline-1 and invisible at deadline, and never expires when the sum exceeds the representable range (probed at now+1, now+10y, MaxInt64-1).",
   note="Probes move the harness clock and use GetEntryQuietly only (no side effects).",
   technique=SEQ, ref="5/C12"),
 "C13": dict(
   text="All sequences up to depth 4/5 of writes with TTLs from 1 ns to MaxInt64/2, reads, deadline extensions, invalidations, clock jumps from 1 ns over every wheel span to 100 years, and CleanUp, from 3 clock origins: after each CleanUp at time T every entry whose deadline and write lie more than one tick before T is gone and its Expiration event was delivered.",
   note="Sequential part; the write-vs-maintenance race is a scheduler scenario (see DESIGN).",
   technique=SEQ, ref="5/C13"),
 "C20": dict(
   text="The C01 exploration with stats.Counter attached (6 configurations incl. deferred executor): after every operation hits/misses equal the lookups of the counting operations judged on the model, load successes/failures equal loader invocations by outcome, evictions lie between the Overflow removals and Overflow+Expiration removals (count and weight), counters never decrease.",
   note="Whether a compute that panics counts as a lookup is not asserted.",
   technique=SEQ, ref="5/C20"),
})
claimed.update({
 "C18": dict(
   text="All increment/aging/resize sequences up to length 5 (quick) / 6 (thorough) over 3 keys whose raw hashes range over an adversarial set found by search (same block and same four counters; same block; counters adjacent inside one 64-bit word; high-bit difference; 0; all ones), for capacities {1,2,3,7,8,9,16,17,100} incl. a mid-sequence ensureCapacity, plus long runs across the natural aging point: estimate >= recordings of the period (capped 15), <= 15, halved by aging, 0 before initialisation; admit() for every (candidate, victim) estimate pair x 9 random answers; growth of a table that has recorded traffic (no aging before the new period is full); admission inside the eviction loop: every small layout of the window/probation/protected queues (weights, estimates) x lowered maxima, evictNodes run on the real policy, a main-space resident is displaced only by a distinct window-origin entry with a strictly greater estimate or when none is left undecided.",
   note="Drives the private sketch/policy through verification-only exports; hashes go through the hashing seam.",
   technique="explicit-state exploration of the implementation: exhaustive enumeration of recording sequences and estimate pairs against exact per-period counts",
   ref="5/C18"),
 "C19": dict(
   text="At every distinct state reached by all sequences up to depth 3/4 of {Set(weight), Get, Invalidate, SetExpiresAfter, SetRefreshableAfter, Advance} in every feature combination: SaveCacheTo, then LoadCacheFrom into a fresh cache at every interesting clock offset (0, 1, each deadline -1/0/+1, past each refresh deadline, past everything) and target maximum {same, 1, 2, 10}: saved = live entries with their deadlines; loaded entries keep key, value, expiration (and future refresh time, due ones stay due); nothing absent/expired is loaded; everything is loaded when it fits, else a subset within the target's bound.",
   note="gob stream in memory; same calculators in source and target.",
   technique=SEQ, ref="5/C19"),
})
E2T = "stateless model checking of the implementation: controlled scheduler + preemption-bounded DFS"
claimed.update({
 "C02": dict(
   text="All interleavings (pb 2 quick / 3 thorough) of pairs and triples of Set, SetIfAbsent, GetIfPresent, Compute{write,invalidate,cancel}, ComputeIfAbsent, ComputeIfPresent, Invalidate and loader-backed Get on keys forced into one bucket with equal meta byte, while the table grows and shrinks (small-scope table) and while the cache evicts (capacity 1-2, same-goroutine and default executors): each complete history, with automatic removals inserted where OnAtomicDeletion reported them, is decided by a Wing-Gong linearizability search against the sequential map; compute callbacks exactly once.",
   note="A removal takes effect between the handler's invocation and the end of the removing computation (lock-free readers may see the node until it is unlinked). Loader-backed Get uses a two-point nondeterministic spec (miss, then install-or-discard); expiry under concurrency is covered sequentially by C01/C03.",
   technique=E2T+" + linearizability search", ref="5/C02"),
 "C08": dict(
   text="All interleavings at loader-callback granularity (unbounded) and at sync/atomic granularity (pb 2/3) of Get||Get, Get||Get||Get, Get||BulkGet, BulkGet||BulkGet, Get||Refresh, Refresh||BulkRefresh, stale Get||stale Get for every loader outcome (value, error, value+error, ErrNotFound, panic, partial/extra/empty bulk maps): loader invocations for one key never overlap, a call that did not run the loader gets a cached value or an overlapping flight's outcome, panics surface in the caller that ran the loader, every thread terminates (deadlock/livelock are violations), no in-flight record is left and a later Get loads afresh.",
   note="A Get whose cache lookup missed before a flight installed its value and whose flight lookup came after that flight ended loads again; the invocations do not overlap, which is what the property demands (see DESIGN).",
   technique=E2T, ref="5/C08"),
 "C09": dict(
   text="All interleavings (pb 2/3) of {miss-load, stale reload, Refresh, BulkGet} with {Set, SetIfAbsent, Compute write/invalidate, Invalidate, ComputeIfAbsent, ComputeIfPresent, InvalidateAll} on the same key, same-goroutine and default executors: whenever an unconditional write or invalidation began after the loader was entered, the final GetEntryQuietly shows that write (or nothing), never the loaded value; callers that ran a load still receive its value; structural audit at quiescence.",
   note="Judged by the unambiguous-window rule; conditional writers are covered by the linearizability scenarios of C02.",
   technique=E2T, ref="5/C09"),
})
props = [json.loads(l) for l in open("/verif/properties.jsonl")]
checks, na = [], []
for p in props:
    pid = p["id"]
    if pid in claimed:
        c = claimed[pid]
        checks.append({
          "property_id": pid,
          "quick_cmd": f"bin/vcheck {pid} --tier quick",
          "thorough_cmd": f"bin/vcheck {pid} --tier thorough",
          "evidence_file": f"/verif/evidence/{pid}.json",
          "replay_cmd_template": f"bin/vcheck {pid} --replay {{path}}",
          "engine": "seqx+model" if c["technique"].startswith("explicit-state") else "vsched+harness",
          "level_claimed": {"category":"model_checking","text":c["text"],"design_ref":c["ref"]},
          "level_note": c["note"],
          "technique": c["technique"],
        })
    else:
        na.append({"property_id": pid, "reason": "check not built yet (work in progress; planned per DESIGN.md section 5)"})
m = {
 "version": 1,
 "setup_cmd": f"cd /verif && {ENV} go1.26.8 build -o bin/vcheck ./cmd/vcheck && bin/vcheck setup",
 "hooks": {
   "guard": "verif",
   "enable": "go1.26.8 build -tags verif -overlay <generated from /repo's working tree by /verif/instrument> ./internal/verif/worker (no hook code is committed to /repo; shims, seams and in-package zz_verif_*.go files are injected by overlay)",
   "baseline_off_cmd": f"cd /repo && {ENV} go1.26.8 test -vet=off -count=1 ./...",
   "source_commits": [],
   "add_only": True,
 },
 "engines": [
   {"name":"vsched+harness","path":"/verif/inject/internal/verif","serves_properties":[c["property_id"] for c in checks],
    "kind_free_text":"controlled cooperative scheduler over sync/sync-atomic shims + stateless preemption-bounded DFS on the real code (E2); sequential explicit-state BFS against a Go reference model (E1)"},
   {"name":"instrument","path":"/verif/instrument","serves_properties":[c["property_id"] for c in checks],
    "kind_free_text":"go/packages-based source rewriter producing a go build -overlay from /repo's working tree"},
 ],
 "checks": checks,
 "not_applicable": na,
 "notes": "All checks rebuild the instrumented worker from /repo's current working tree (content-hash keyed cache under /verif/.cache). Exit 0 = held within bounds, 1 = VIOLATION line, 2 = INFRA-ERROR.",
}
json.dump(m, open("/verif/MANIFEST.json","w"), indent=1)
print("claimed", len(checks), "na", len(na))
