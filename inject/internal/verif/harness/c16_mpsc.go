package harness

import (
	"encoding/json"
	"fmt"
	"sync/atomic"

	"github.com/maypok86/otter/v2/internal/deque/queue"
)

// C16: the MPSC write buffer delivers every accepted element exactly once, in
// per-producer order, and refuses an offer only when it is full.

type c16Params struct {
	Init      uint32 `json:"init"`
	Max       uint32 `json:"max"`
	Producers []int  `json:"producers"` // pushes per producer
	Prefill   int    `json:"prefill"`   // push+pop pairs executed natively first (moves the indices)
	Preload   int    `json:"preload"`   // elements pushed natively and left in the queue
}

type c16Item struct{ id int }

type c16Push struct {
	id       int
	call, rt int64
	ok       bool
}

type c16Pop struct {
	id       int
	call, rt int64
}

func init() {
	Register(&Scenario{Name: "c16.mpsc", Body: c16Body})
}

func c16Body(x *Exec, raw json.RawMessage) {
	var p c16Params
	if err := json.Unmarshal(raw, &p); err != nil {
		panic(err)
	}
	q := queue.NewMPSC[c16Item](p.Init, p.Max)
	capacity := int(roundPow2(p.Max))
	for i := 0; i < p.Prefill; i++ {
		it := &c16Item{id: -1 - i}
		if !q.TryPush(it) {
			x.Fail("push-refused-not-full", "TryPush", "prefill push %d refused on an empty queue", i)
		}
		if got := q.TryPop(); got != it {
			x.Fail("wrong-element", "TryPop", "prefill pop %d returned %v", i, got)
		}
	}
	var preloaded []int
	for i := 0; i < p.Preload; i++ {
		it := &c16Item{id: 9000 + i}
		if q.TryPush(it) {
			preloaded = append(preloaded, it.id)
		} else if i < capacity {
			x.Fail("push-refused-not-full", "TryPush", "sequential push %d refused with %d of %d slots used", i, i, capacity)
		}
	}
	if p.Preload > capacity && len(preloaded) > capacity {
		x.Fail("capacity-exceeded", "TryPush", "queue accepted %d elements with capacity %d", len(preloaded), capacity)
	}

	pushes := make([][]c16Push, len(p.Producers))
	var pops []c16Pop
	var done atomic.Int32
	bodies := make([]func(), 0, len(p.Producers)+1)
	for pi, n := range p.Producers {
		pi, n := pi, n
		bodies = append(bodies, func() {
			for i := 0; i < n; i++ {
				it := &c16Item{id: (pi+1)*100 + i}
				c := x.Now()
				ok := q.TryPush(it)
				pushes[pi] = append(pushes[pi], c16Push{id: it.id, call: c, rt: x.Now(), ok: ok})
			}
			done.Add(1)
		})
	}
	bodies = append(bodies, func() {
		for {
			allDone := int(done.Load()) == len(p.Producers)
			c := x.Now()
			it := q.TryPop()
			if it != nil {
				pops = append(pops, c16Pop{id: it.id, call: c, rt: x.Now()})
				continue
			}
			if allDone {
				return
			}
		}
	})
	ok := x.Threads(bodies...)
	for pi := range pushes {
		for _, pu := range pushes[pi] {
			x.Obsf("push %d ok=%v", pu.id, pu.ok)
		}
	}
	order := ""
	for _, po := range pops {
		order += fmt.Sprintf("%d,", po.id)
	}
	x.Obsf("pops %s", order)
	if !ok {
		return
	}
	// drain natively whatever is left (nothing should be: the consumer stops only on empty after producers are done)
	for {
		it := q.TryPop()
		if it == nil {
			break
		}
		pops = append(pops, c16Pop{id: it.id, call: 1 << 60, rt: 1 << 60})
		x.Fail("element-left-behind", "TryPop", "element %d was still queued after the consumer saw an empty queue with all producers done", it.id)
	}
	if !q.IsEmpty() || q.Size() != 0 {
		x.Fail("size-mismatch", "Size", "queue reports size %d / empty=%v after draining", q.Size(), q.IsEmpty())
	}
	// exactly once
	accepted := map[int]int{}
	for _, id := range preloaded {
		accepted[id]++
	}
	for pi := range pushes {
		for _, pu := range pushes[pi] {
			if pu.ok {
				accepted[pu.id]++
			}
		}
	}
	popped := map[int]int{}
	for _, po := range pops {
		popped[po.id]++
	}
	for id, n := range popped {
		if accepted[id] == 0 {
			x.Fail("never-pushed", "TryPop", "popped element %d that was never accepted", id)
		} else if n > 1 {
			x.Fail("duplicate", "TryPop", "element %d popped %d times", id, n)
		}
	}
	for id := range accepted {
		if popped[id] == 0 {
			x.Fail("lost", "TryPop", "accepted element %d was never popped", id)
		}
	}
	// per-producer order (preloaded elements are one sequential producer)
	pos := map[int]int{}
	for i, po := range pops {
		if _, seen := pos[po.id]; !seen {
			pos[po.id] = i
		}
	}
	checkOrder := func(ids []int, who string) {
		last := -1
		for _, id := range ids {
			pp, ok := pos[id]
			if !ok {
				continue
			}
			if pp < last {
				x.Fail("producer-order", "TryPop", "%s: element %d consumed before an earlier element of the same producer", who, id)
			}
			last = pp
		}
	}
	checkOrder(preloaded, "preload")
	for pi := range pushes {
		var ids []int
		for _, pu := range pushes[pi] {
			if pu.ok {
				ids = append(ids, pu.id)
			}
		}
		checkOrder(ids, fmt.Sprintf("producer %d", pi))
	}
	// refusals must be justified: most generous bound that can never accuse correct code
	for pi := range pushes {
		for _, pu := range pushes[pi] {
			if pu.ok {
				continue
			}
			x.Count("refusals")
			held := len(preloaded)
			for pj := range pushes {
				for _, o := range pushes[pj] {
					if o.ok && o.call < pu.rt {
						held++
					}
				}
			}
			for _, po := range pops {
				if po.rt < pu.call {
					held--
				}
			}
			if held < capacity {
				x.Fail("push-refused-not-full", "TryPush", "push %d refused although at most %d of %d slots could be held during the call", pu.id, held, capacity)
			}
		}
	}
	// bounded: at no instant are more than `capacity` accepted events outstanding. Lower bound of the number
	// outstanding at the return of an accepted push: pushes accepted by then minus pops that had started by then.
	for pi := range pushes {
		for _, pu := range pushes[pi] {
			if !pu.ok {
				continue
			}
			out := len(preloaded)
			for pj := range pushes {
				for _, o := range pushes[pj] {
					if o.ok && o.rt <= pu.rt {
						out++
					}
				}
			}
			for _, po := range pops {
				if po.call <= pu.rt {
					out--
				}
			}
			if out > capacity {
				x.Fail("capacity-exceeded", "TryPush", "after push %d was accepted at least %d events were outstanding, the maximum is %d", pu.id, out, capacity)
			}
		}
	}
	if len(pops) > 0 {
		x.Count("pops")
	}
}

func roundPow2(v uint32) uint32 {
	r := uint32(1)
	for r < v {
		r <<= 1
	}
	return r
}
