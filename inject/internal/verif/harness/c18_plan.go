package harness

func init() {
	plans["C18"] = func(thorough bool) []*Job {
		caps := []uint64{1, 2, 3, 7, 8, 9, 16, 17, 100}
		maxLen, budget := 5, 60
		if thorough {
			maxLen, budget = 6, 600
		}
		return []*Job{
			{Scenario: "sketch.seq", Params: js(c18Params{Mode: "increments", Caps: caps, MaxLen: maxLen}), Shards: 9, BudgetS: budget},
			{Scenario: "sketch.seq", Params: js(c18Params{Mode: "increments", Caps: []uint64{3, 8}, MaxLen: maxLen, ResizeTo: 40}), Shards: 2, BudgetS: budget},
			// requests that the current table already satisfies (exactly its length, one less) must change nothing
			{Scenario: "sketch.seq", Params: js(c18Params{Mode: "increments", Caps: []uint64{3, 8, 16, 17}, MaxLen: maxLen, ResizeTo: -1}), Shards: 4, BudgetS: budget},
			{Scenario: "sketch.seq", Params: js(c18Params{Mode: "increments", Caps: []uint64{8, 9}, MaxLen: maxLen, ResizeTo: -2}), Shards: 2, BudgetS: budget},
			{Scenario: "sketch.seq", Params: js(c18Params{Mode: "long", Caps: caps}), Shards: 9, BudgetS: budget, Need: []string{"natural-resets"}},
			{Scenario: "sketch.seq", Params: js(c18Params{Mode: "admit"}), Shards: 4, BudgetS: budget},
			// key types whose equality is not bitwise (float64: +0.0 == -0.0)
			{Scenario: "sketch.seq", Params: js(c18Params{Mode: "keytypes", Caps: []uint64{1, 8, 17, 100}, MaxLen: maxLen}), Shards: 4, BudgetS: budget, Need: []string{"keytype-probes"}},
			// admission inside the eviction loop: every small queue layout, the maximum lowered, evictNodes on the real policy
			{Scenario: "sketch.seq", Params: js(c18Params{Mode: "evict"}), Shards: 8, BudgetS: budget, Need: []string{"evictions-judged"}},
			// a table that grows after it has recorded traffic starts a fresh period (many keys, so that periods fill up)
			{Scenario: "sketch.seq", Params: js(c18Params{Mode: "growth", Caps: []uint64{1, 2, 3, 8, 9, 16}}), Shards: 4, BudgetS: budget, Need: []string{"growths-after-traffic", "natural-resets"}},
		}
	}
}
