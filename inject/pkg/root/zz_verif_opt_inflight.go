//go:build verif

package otter

// Optional hook: how many load records the in-flight table holds. If a changed tree no longer has these private
// names the driver falls back to inject/stubs/root/zz_verif_opt_inflight.go (the count is then unknown, -1).
func (c *Cache[K, V]) verifInFlight() int {
	cc := c.cache
	if cc.singleflight.isInitialized.Load() {
		return cc.singleflight.calls.Size()
	}
	return 0
}
