// Replacement for internal/xruntime/xruntime.go injected by the verification overlay.
package xruntime

import (
	"math"
	"time"

	"github.com/maypok86/otter/v2/internal/verif/vdet"
)

const (
	// CacheLineSize is useful for preventing false sharing.
	CacheLineSize = 64

	MaxDuration = time.Duration(math.MaxInt64)
)

// Parallelism is a constant under verification (buffer sizes must not depend on the host).
func Parallelism() uint32 {
	return vdet.ParallelismValue
}

func Fastrand() uint32 {
	return vdet.Fastrand()
}
