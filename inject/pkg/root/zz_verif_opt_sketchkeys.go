//go:build verif

package otter

// VerifSketchFloatProbe records the given float64 keys in a fresh sketch of the given capacity and returns the
// estimate of ask (key types whose equality is not bitwise: +0.0 == -0.0). ok=false: hook not available.
func VerifSketchFloatProbe(capacity uint64, seq []float64, ask float64) (freq uint64, ok bool) {
	s := newSketch[float64]()
	s.ensureCapacity(capacity)
	for _, k := range seq {
		s.increment(k)
	}
	return s.frequency(ask), true
}

// VerifSketchIfaceProbe does the same for interface-typed keys (dynamic types differ, equality is by value).
func VerifSketchIfaceProbe(capacity uint64, seq []any, ask any) (freq uint64, ok bool) {
	s := newSketch[any]()
	s.ensureCapacity(capacity)
	for _, k := range seq {
		s.increment(k)
	}
	return s.frequency(ask), true
}
