package harness

import (
	"fmt"
	"math"
	"sort"
	"strings"

	otter "github.com/maypok86/otter/v2"
)

// Model is the reference "map whose entries carry deadlines" (DESIGN Appendix A).
// It never evicts by itself: entries leave it through explicit operations or
// when the cache reports an automatic removal through OnAtomicDeletion.

const never = int64(math.MaxInt64)

type mEntry struct {
	val int
	exp int64
	ref int64
}

type pendingReload struct {
	old     int
	outcome string
}

type Model struct {
	cfg      CacheCfg
	m        map[int]*mEntry
	now      int64
	max      uint64
	iterSnap map[int]int // live contents when the saved iterator was obtained (nil: none)
	reloads  map[int]*pendingReload
	added    uint64 // total weight written by the current op
	// values installed by loader outcomes during the current op (key -> value)
	loadInstalls map[int]int
	optional     []expEvent
	// deferred executor: loader calls that queued executor tasks must still make
	pending []expLoad
}

func NewModel(cfg CacheCfg) *Model {
	m := &Model{cfg: cfg, m: map[int]*mEntry{}, now: cfg.ClockStart, reloads: map[int]*pendingReload{}}
	m.max = math.MaxUint64
	if cfg.MaxSize > 0 {
		m.max = uint64(cfg.MaxSize)
	}
	if cfg.MaxWeight > 0 {
		m.max = cfg.MaxWeight
	}
	return m
}

func satAdd(a, b int64) int64 {
	if b > 0 && a > math.MaxInt64-b {
		return math.MaxInt64
	}
	return a + b
}

func (m *Model) get(k int) (*mEntry, bool) {
	e := m.m[k]
	if e != nil && e.exp > m.now {
		return e, true
	}
	return nil, false
}

// expiredUnswept: the model still holds an entry whose deadline has passed.
func (m *Model) expiredUnswept(k int) bool {
	e := m.m[k]
	return e != nil && e.exp <= m.now
}

func (m *Model) weightOf(v int) uint64 { return weightOf(m.cfg, v) }

func (m *Model) totalWeight() uint64 {
	var s uint64
	for _, e := range m.m {
		s += m.weightOf(e.val)
	}
	return s
}

func (m *Model) liveKeys() []int {
	var ks []int
	for k := range m.m {
		if _, ok := m.get(k); ok {
			ks = append(ks, k)
		}
	}
	sort.Ints(ks)
	return ks
}

// expectation of one operation
type expect struct {
	check   bool // compare Val/OK
	val     int
	ok      bool
	err     string
	panics  bool
	mapRes  map[int]int // BulkGet / All
	list    []int
	isList  bool
	// iteration during which the clock advanced: the keys live before the advance (list = the keys live after it)
	listBefore []int
	entry   bool // compare entry fields with the model entry after the op
	removed []expEvent
	// removals that may or may not happen (implementation-defined): if reported, the model follows
	optional []expEvent
	calls    int // expected compute callback invocations (-1 = not checked)
	saw      *[2]int
	nilChan  bool
	// loader invocations the operation must make (checked when checkLoads)
	loads      []expLoad
	checkLoads bool
}

type expEvent struct {
	key, val int
	causes   []otter.DeletionCause
}

func (m *Model) removeEvent(k int, explicit otter.DeletionCause) expEvent {
	e := m.m[k]
	ev := expEvent{key: k, val: e.val}
	if e.exp <= m.now {
		ev.causes = []otter.DeletionCause{otter.CauseExpiration}
	} else {
		ev.causes = []otter.DeletionCause{explicit}
	}
	return ev
}

// applyHooks moves the deadlines of key k according to the calculator calls observed during the op.
func (m *Model) applyHooks(k int, hooks []CalcCall) {
	e := m.m[k]
	if e == nil {
		return
	}
	for _, h := range hooks {
		if h.Key != k || h.D <= 0 {
			continue
		}
		if strings.HasPrefix(h.Hook, "r") && h.Hook != "read" {
			e.ref = satAdd(m.now, h.D)
		} else {
			e.exp = satAdd(m.now, h.D)
		}
	}
}

// write installs v for k (explicit write or installed load) and returns the removal it implies.
func (m *Model) write(k, v int, hooks []CalcCall, cause otter.DeletionCause) []expEvent {
	var evs []expEvent
	old := m.m[k]
	ne := &mEntry{val: v, exp: never, ref: never}
	if old != nil {
		evs = append(evs, m.removeEvent(k, cause))
		// the new node inherits the old deadlines before the calculators are consulted; a write over an expired
		// (unswept) entry is a creation and inherits nothing
		if old.exp > m.now {
			ne.exp, ne.ref = old.exp, old.ref
		}
	}
	m.m[k] = ne
	m.added += m.weightOf(v)
	m.applyHooks(k, hooks)
	delete(m.reloads, k)
	return evs
}

func (m *Model) remove(k int, cause otter.DeletionCause) []expEvent {
	delete(m.reloads, k)
	if m.m[k] == nil {
		return nil
	}
	ev := m.removeEvent(k, cause)
	delete(m.m, k)
	return []expEvent{ev}
}

func withoutReadHooks(hooks []CalcCall) []CalcCall {
	var out []CalcCall
	for _, h := range hooks {
		if h.Hook != "read" {
			out = append(out, h)
		}
	}
	return out
}

func hooksFor(hooks []CalcCall, k int) []CalcCall {
	var out []CalcCall
	for _, h := range hooks {
		if h.Key == k {
			out = append(out, h)
		}
	}
	return out
}

// Step applies op to the model and returns what the cache must have returned.
// res is the cache's actual result (used only for facts the model cannot know:
// the fresh value of a write); hooks/loads are the calculator and loader calls
// observed during the op.
func (m *Model) Step(op string, res OpResult, hooks []CalcCall, loads []LoadCall, deferredExec bool) expect {
	f := strings.Fields(op)
	ex := expect{calls: -1}
	k := 0
	if len(f) > 1 && !strings.Contains(f[1], ",") {
		if n, err := fmt.Sscan(f[1], &k); n != 1 || err != nil {
			k = 0
		}
	}
	newVal := res.Int
	switch f[0] {
	case "set":
		ex.check = true
		if e, ok := m.get(k); ok {
			ex.val, ex.ok = e.val, false
		} else {
			ex.val, ex.ok = newVal, true
		}
		ex.removed = m.write(k, newVal, hooks, otter.CauseReplacement)
	case "sia":
		ex.check = true
		if e, ok := m.get(k); ok {
			ex.val, ex.ok = e.val, false
			m.applyHooks(k, hooks)
		} else {
			ex.val, ex.ok = newVal, true
			ex.removed = m.write(k, newVal, hooks, otter.CauseReplacement)
		}
	case "get", "gete":
		ex.check = true
		if e, ok := m.get(k); ok {
			ex.val, ex.ok = e.val, true
			m.applyHooks(k, hooks)
			ex.entry = f[0] == "gete"
		}
	case "getq":
		ex.check = true
		if e, ok := m.get(k); ok {
			ex.val, ex.ok = e.val, true
			ex.entry = true
		}
	case "cw", "ci", "cc", "cp":
		ex.check = true
		ex.calls = 1
		e, ok := m.get(k)
		saw := [2]int{0, 0}
		if ok {
			saw = [2]int{e.val, 1}
		}
		ex.saw = &saw
		switch f[0] {
		case "cw":
			ex.val, ex.ok = newVal, true
			ex.removed = m.write(k, newVal, hooks, otter.CauseReplacement)
		case "ci":
			if ok {
				ex.removed = m.remove(k, otter.CauseInvalidation)
			} else {
				delete(m.reloads, k)
			}
		case "cc":
			if ok {
				ex.val, ex.ok = e.val, true
			}
		case "cp":
			ex.panics = true
			ex.check = false
		}
	case "cia", "ciac":
		ex.check = true
		if e, ok := m.get(k); ok {
			ex.val, ex.ok = e.val, true
			ex.calls = 0
			m.applyHooks(k, hooks)
		} else {
			ex.calls = 1
			if f[0] == "cia" {
				ex.val, ex.ok = newVal, true
				ex.removed = m.write(k, newVal, hooks, otter.CauseReplacement)
			}
		}
	case "cipw", "cipi", "cipc":
		ex.check = true
		e, ok := m.get(k)
		if !ok {
			ex.calls = 0
			break
		}
		ex.calls = 1
		saw := [2]int{e.val, 1}
		ex.saw = &saw
		switch f[0] {
		case "cipw":
			ex.val, ex.ok = newVal, true
			ex.removed = m.write(k, newVal, hooks, otter.CauseReplacement)
		case "cipi":
			ex.removed = m.remove(k, otter.CauseInvalidation)
		case "cipc":
			ex.val, ex.ok = e.val, true
			m.applyHooks(k, hooks)
		}
	case "inv":
		ex.check = true
		if e, ok := m.get(k); ok {
			ex.val, ex.ok = e.val, true
		}
		ex.removed = m.remove(k, otter.CauseInvalidation)
	case "invall":
		var ks []int
		for kk := range m.m {
			ks = append(ks, kk)
		}
		sort.Ints(ks)
		for _, kk := range ks {
			ex.removed = append(ex.removed, m.remove(kk, otter.CauseInvalidation)...)
		}
	case "sea":
		if e, ok := m.get(k); ok && m.cfg.Expiry != "" {
			if d := atoi64(f[2]); d > 0 {
				e.exp = satAdd(m.now, d)
			}
		}
	case "sra":
		if e, ok := m.get(k); ok && m.cfg.Refresh != "" {
			if d := atoi64(f[2]); d > 0 {
				e.ref = satAdd(m.now, d)
			}
		}
	case "adv":
		if d := atoi64(f[1]); d > 0 && m.now <= math.MaxInt64-d {
			m.now += d
		}
	case "setmax":
		if m.cfg.MaxSize > 0 || m.cfg.MaxWeight > 0 {
			m.max = uint64(atoi64(f[1]))
		}
	case "all":
		ex.mapRes = map[int]int{}
		for _, kk := range m.liveKeys() {
			ex.mapRes[kk] = m.m[kk].val
		}
	case "allinv":
		// every key live when the iteration began is yielded once (only yielded keys are removed) and invalidated
		ex.isList = true
		ex.listBefore = m.liveKeys()
		for _, kk := range ex.listBefore {
			ex.removed = append(ex.removed, m.remove(kk, otter.CauseInvalidation)...)
		}
		ex.list = m.liveKeys()
	case "alladv", "keysadv", "coldestadv", "hottestadv":
		// the clock advances after the first element: the first one is judged at the old clock value, the rest at the new
		ex.isList = true
		ex.listBefore = m.liveKeys()
		if d := atoi64(f[1]); d > 0 && m.now <= math.MaxInt64-d {
			m.now += d
		}
		ex.list = m.liveKeys()
	case "mkiter":
		m.iterSnap = map[int]int{}
		for _, kk := range m.liveKeys() {
			m.iterSnap[kk] = m.m[kk].val
		}
	case "useiter":
		ex.isList = true
		ex.list = m.liveKeys()
	case "all1", "keys1", "coldest1", "hottest1":
		ex.isList = true
		ex.list = m.liveKeys()
	case "keys", "coldest", "hottest", "save":
		ex.isList = true
		ex.list = m.liveKeys()
	case "values":
		ex.isList = true
		for _, kk := range m.liveKeys() {
			ex.list = append(ex.list, m.m[kk].val)
		}
		sort.Ints(ex.list)
	case "load":
		m.stepLoad(&ex, k, loads, hooks, deferredExec)
	case "bulk":
		m.stepBulk(&ex, keyList(f[1]), loads, hooks, deferredExec)
	case "refresh":
		if m.cfg.Refresh == "" {
			ex.nilChan = true
			break
		}
		// an explicit refresh is not a read: a read hook consulted by it is not followed, so a deadline it moved shows as
		// a mismatch (C11: a failed reload leaves the entry and its expiry untouched; C12: deadlines move on create, update, read)
		hooks = withoutReadHooks(hooks)
		want := expLoad{kind: "load", keys: []int{k}}
		if e, ok := m.get(k); ok {
			want = expLoad{kind: "reload", keys: []int{k}, olds: []int{e.val}}
		}
		if deferredExec {
			m.pending = append(m.pending, want)
		} else {
			ex.loads = []expLoad{want}
			ex.checkLoads = true
		}
		ex.removed = append(ex.removed, m.applyLoads(loads, hooks)...)
	case "bulkrefresh":
		if m.cfg.Refresh == "" {
			ex.nilChan = true
			break
		}
		hooks = withoutReadHooks(hooks)
		var lk, rk, olds []int
		seen := map[int]bool{}
		ks := keyList(f[1])
		sort.Ints(ks)
		for _, kk := range ks {
			if seen[kk] {
				continue
			}
			seen[kk] = true
			if e, ok := m.get(kk); ok {
				rk = append(rk, kk)
				olds = append(olds, e.val)
			} else {
				lk = append(lk, kk)
			}
		}
		var want []expLoad
		if len(lk) > 0 {
			want = append(want, expLoad{kind: "bulkload", keys: lk})
		}
		if len(rk) > 0 {
			want = append(want, expLoad{kind: "bulkreload", keys: rk, olds: olds})
		}
		if deferredExec {
			m.pending = append(m.pending, want...)
		} else {
			ex.loads = want
			ex.checkLoads = true
		}
		ex.removed = append(ex.removed, m.applyLoads(loads, hooks)...)
	case "runexec":
		// queued executor tasks run now: every loader call they make is applied in order
		ex.removed = append(ex.removed, m.applyLoads(loads, hooks)...)
		if len(f) == 1 || f[1] == "0" {
			ex.loads = m.pending
			ex.checkLoads = true
			m.pending = nil
		}
	case "cleanup", "getmax", "wsize", "esize":
	}
	ex.optional = m.optional
	m.optional = nil
	return ex
}

type expLoad struct {
	kind string
	keys []int
	olds []int
}

func (l expLoad) String() string { return fmt.Sprintf("%s%v%v", l.kind, l.keys, l.olds) }

// applyLoads applies the outcome of every observed loader call, in order: a supplied value is
// installed, a not-found answer to a reload removes the entry, an error changes nothing.
func (m *Model) applyLoads(loads []LoadCall, allHooks []CalcCall) []expEvent {
	var evs []expEvent
	for li, lc := range loads {
		// the calculator calls that belong to this loader call's outcome: from its entry up to the next loader entry
		hooks := allHooks
		if len(loads) > 1 {
			hooks = nil
			for _, h := range allHooks {
				if li > 0 && h.At < lc.Enter || li+1 < len(loads) && h.At >= loads[li+1].Enter {
					continue
				}
				hooks = append(hooks, h)
			}
		}
		if lc.Err == "loaderr" || lc.Err == "panic" {
			// a failed (re)load leaves the entry and its expiry untouched; only the refresh calculator's
			// after-failure answer is followed (an expiry hook consulted here is not: a moved deadline is a mismatch)
			for _, k := range lc.Keys {
				var rh []CalcCall
				for _, h := range hooksFor(hooks, k) {
					if strings.HasPrefix(h.Hook, "r") && h.Hook != "read" {
						rh = append(rh, h)
					}
				}
				m.applyHooks(k, rh)
			}
			continue
		}
		if lc.Err == "notfound" && (lc.Kind == "bulkload" || lc.Kind == "bulkreload") {
			continue // a bulk loader error (even ErrNotFound) fails the whole call
		}
		keys := append([]int(nil), lc.Keys...)
		sort.Ints(keys)
		for _, k := range keys {
			if v, ok := lc.Out[k]; ok && lc.Err == "" {
				wr := m.write(k, v, hooksFor(hooks, k), otter.CauseReplacement)
				if m.loadInstalls == nil {
					m.loadInstalls = map[int]int{}
				}
				m.loadInstalls[k] = v
				// an earlier loader call of this very operation may already have removed the entry (optional removal):
				// then its report carries that call's cause
				for i := 0; i < len(m.optional); i++ {
					if m.optional[i].key == k {
						for j := range wr {
							if wr[j].key == k && wr[j].val == m.optional[i].val {
								wr[j].causes = append(wr[j].causes, m.optional[i].causes...)
							}
						}
						m.optional = append(m.optional[:i], m.optional[i+1:]...)
						i--
					}
				}
				evs = append(evs, wr...)
			} else if lc.Kind == "reload" || lc.Kind == "bulkreload" {
				// not found on reload: the entry is removed
				evs = append(evs, m.remove(k, otter.CauseInvalidation)...)
			} else if e := m.m[k]; e != nil && e.exp > m.now {
				// a Load (the key was absent when the refresh was requested) that reports not-found while the key
				// has been written in the meantime: whether the entry goes is implementation-defined
				m.optional = append(m.optional, expEvent{key: k, val: e.val, causes: []otter.DeletionCause{otter.CauseInvalidation}})
			}
		}
		// volunteered keys are cached too
		var extra []int
		for k := range lc.Out {
			asked := false
			for _, a := range lc.Keys {
				if a == k {
					asked = true
				}
			}
			if !asked && lc.Err == "" {
				extra = append(extra, k)
			}
		}
		sort.Ints(extra)
		for _, k := range extra {
			evs = append(evs, m.write(k, lc.Out[k], hooksFor(hooks, k), otter.CauseReplacement)...)
		}
	}
	return evs
}

func (m *Model) stale(e *mEntry) bool { return m.cfg.Refresh != "" && e.ref <= m.now }

func (m *Model) stepLoad(ex *expect, k int, loads []LoadCall, hooks []CalcCall, deferredExec bool) {
	ex.check = true
	ex.checkLoads = true
	if e, ok := m.get(k); ok {
		ex.val, ex.ok = e.val, true
		if m.stale(e) {
			want := expLoad{kind: "reload", keys: []int{k}, olds: []int{e.val}}
			if deferredExec {
				m.pending = append(m.pending, want)
			} else {
				ex.loads = []expLoad{want}
			}
		}
		m.applyHooks(k, hooksFor(hooks, k))
		ex.removed = m.applyLoads(loads, hooks)
		return
	}
	ex.loads = []expLoad{{kind: "load", keys: []int{k}}}
	if len(loads) != 1 {
		return // reported by the loader-call comparison
	}
	lc := loads[0]
	switch lc.Err {
	case "":
		ex.val, ex.ok = lc.Out[k], true
	case "loaderr":
		ex.val, ex.ok, ex.err = lc.Out[k], false, "loaderr"
	case "notfound":
		ex.val, ex.ok, ex.err = 0, false, "notfound"
	case "panic":
		ex.check = false
		ex.panics = true
	}
	ex.removed = m.applyLoads(loads, hooks)
}

func (m *Model) stepBulk(ex *expect, keys []int, loads []LoadCall, hooks []CalcCall, deferredExec bool) {
	ex.mapRes = map[int]int{}
	ex.checkLoads = true
	ex.ok = true
	var missing, staleKeys, staleOlds []int
	seen := map[int]bool{}
	for _, k := range keys {
		if seen[k] {
			continue
		}
		seen[k] = true
		if e, ok := m.get(k); ok {
			ex.mapRes[k] = e.val
			if m.stale(e) {
				staleKeys = append(staleKeys, k)
				staleOlds = append(staleOlds, e.val)
			}
			m.applyHooks(k, hooksFor(hooks, k))
		} else {
			missing = append(missing, k)
		}
	}
	sort.Ints(missing)
	if len(staleKeys) > 0 {
		// sorted by key, olds follow
		idx := make([]int, len(staleKeys))
		for i := range idx {
			idx[i] = i
		}
		sort.Slice(idx, func(a, b int) bool { return staleKeys[idx[a]] < staleKeys[idx[b]] })
		var sk, so []int
		for _, i := range idx {
			sk = append(sk, staleKeys[i])
			so = append(so, staleOlds[i])
		}
		want := expLoad{kind: "bulkreload", keys: sk, olds: so}
		if deferredExec {
			m.pending = append(m.pending, want)
		} else {
			ex.loads = append(ex.loads, want)
		}
	}
	if len(missing) > 0 {
		ex.loads = append(ex.loads, expLoad{kind: "bulkload", keys: missing})
		for _, lc := range loads {
			if lc.Kind != "bulkload" {
				continue
			}
			switch lc.Err {
			case "":
				for _, k := range missing {
					if v, ok := lc.Out[k]; ok {
						ex.mapRes[k] = v
					}
				}
			case "panic":
				ex.panics = true
			default:
				ex.ok = false
				ex.err = lc.Err
			}
		}
	}
	ex.removed = m.applyLoads(loads, hooks)
}
