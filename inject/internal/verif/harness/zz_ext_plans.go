package harness

import "fmt"

// This file sorts last so that its init runs after the sequential plans are registered.
func init() {
	// ---- E2 parts of C13, C20, C11: appended to the sequential plans ----
	seq13 := plans["C13"]
	plans["C13"] = func(thorough bool) []*Job {
		jobs := seq13(thorough)
		pb, budget := 2, 60
		if thorough {
			pb, budget = 3, 600
		}
		post := []string{fmt.Sprintf("adv %d", 3*tickNs+1), "cleanup"}
		for _, ex := range []string{"caller", "default"} {
			cfg := CacheCfg{Expiry: "writing", TTL: 10, ClockStart: 1 << 40, Executor: ex}
			mk := func(label string, setup []string, threads [][]string) {
				p := concParams{Label: label + "/" + ex, Cfg: cfg, Setup: setup, Threads: threads, Oracles: []string{"swept"}, Post: post}
				jobs = append(jobs, &Job{Scenario: "cache.conc", Params: js(p), PB: pb, Shards: 8, BudgetS: budget, Need: []string{"swept-checked"}})
			}
			adv := fmt.Sprintf("adv %d", 5*tickNs)
			mk("Set‖Advance;CleanUp", nil, [][]string{{"set 1"}, {adv, "cleanup"}})
			mk("Set‖Advance;CleanUp‖Get", []string{"set 2"}, [][]string{{"set 1"}, {adv, "cleanup"}, {"get 2"}})
			mk("update‖Advance;CleanUp", []string{"set 1"}, [][]string{{"set 1"}, {adv, "cleanup"}})
			mk("SetExpiresAfter‖Advance;CleanUp", []string{"set 1"}, [][]string{{"sea 1 20"}, {adv, "cleanup"}})
		}
		return jobs
	}
	seq20 := plans["C20"]
	plans["C20"] = func(thorough bool) []*Job {
		jobs := seq20(thorough)
		pb, budget := 2, 60
		if thorough {
			pb, budget = 3, 600
		}
		for _, ex := range []string{"caller"} {
			mk := func(label string, cfg CacheCfg, setup []string, threads [][]string) {
				cfg.Stats = true
				cfg.Executor = ex
				jobs = append(jobs, concJob(label, cfg, setup, threads, []string{"stats"}, "native", pb, false, 8, budget))
			}
			mk("Get‖Get‖Set", CacheCfg{}, []string{"set 1"}, [][]string{{"get 1"}, {"get 1"}, {"set 1"}})
			mk("Get‖Get‖Invalidate", CacheCfg{}, []string{"set 1"}, [][]string{{"get 1", "get 2"}, {"get 1"}, {"inv 1"}})
			mk("load‖load", CacheCfg{}, nil, [][]string{{"load 1 val"}, {"load 1 err"}})
			mk("ComputeIfAbsent‖Invalidate", CacheCfg{}, []string{"set 1"}, [][]string{{"cia 1"}, {"inv 1"}})
			mk("Compute‖Compute", CacheCfg{}, []string{"set 1"}, [][]string{{"cw 1", "get 1"}, {"ci 1", "get 1"}})
			mk("Set‖Set(evicting)", CacheCfg{MaxSize: 1}, []string{"set 1"}, [][]string{{"set 2", "get 1"}, {"set 3", "get 2"}})
		}
		return jobs
	}
	seq11 := plans["C11"]
	plans["C11"] = func(thorough bool) []*Job {
		jobs := seq11(thorough)
		for _, ex := range []string{"default", "caller"} {
			cfg := CacheCfg{Refresh: "writing", RefreshTTL: 40, ClockStart: 1 << 40, Executor: ex}
			for _, o := range []string{"val", "err", "nf"} {
				var need []string
				if ex == "default" {
					need = []string{"reads-during-reload"}
				}
				jobs = append(jobs, concJob("staleGet("+o+")‖readers/"+ex, cfg, []string{"set 1", "adv 50"}, [][]string{{"load 1 " + o}, {"get 1", "get 1"}}, []string{"refresh-readers", "audit"}, "native", 12, true, 4, 60, need...))
			}
		}
		return jobs
	}

	// ---- C06 sequential part: the event ledger along every operation sequence ----
	conc06 := plans["C06"]
	plans["C06"] = func(thorough bool) []*Job {
		jobs := conc06(thorough)
		kinds := []string{"event-missing", "event-duplicate", "wrong-cause", "event-for-unknown-value", "unexpected-removal"}
		for _, cfg := range []CacheCfg{
			{}, // no maintenance: the fast notification path
			{MaxSize: 2},
			{MaxWeight: 4},
			{Expiry: "writing", TTL: 100, ClockStart: 1 << 40},
			{MaxSize: 2, Expiry: "accessing", TTL: 100, Refresh: "writing", RefreshTTL: 40, ClockStart: 1 << 40},
			{MaxSize: 2, Expiry: "writing", TTL: 100, Executor: "deferred", ClockStart: 1 << 40},
		} {
			depth, budget := 3, 60
			if thorough {
				depth, budget = 4, 600
			}
			a := baseAlphabet([]int{1, 2, 3}, cfg, true)
			jobs = append(jobs, seqJob(seqParams{Cfg: cfg, Alphabet: a, Kinds: kinds}, depth, 4, budget))
		}
		return jobs
	}
}
