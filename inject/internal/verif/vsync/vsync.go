// Package vsync is a drop-in replacement for the parts of "sync" that otter
// uses. Under an active vsched exploration every operation is a scheduling
// point and blocking is visible to the scheduler; otherwise the real
// primitives are used directly.
package vsync

import (
	"sync"
	"sync/atomic"
	"unsafe"

	"github.com/maypok86/otter/v2/internal/verif/vsched"
)

type Locker = sync.Locker

// Mutex has the same size as sync.Mutex (cache-line padding in otter depends on it).
type Mutex struct {
	mu sync.Mutex
}

func (m *Mutex) addr() uintptr { return uintptr(unsafe.Pointer(m)) }

func (m *Mutex) free() bool {
	if m.mu.TryLock() {
		m.mu.Unlock()
		return true
	}
	return false
}

func (m *Mutex) Lock() {
	if vsched.Active() {
		vsched.TracePoint("Mutex.Lock")
		vsched.Point()
		for !m.mu.TryLock() {
			vsched.Block(m.free)
		}
		vsched.NoteWrite()
		return
	}
	m.mu.Lock()
}

func (m *Mutex) TryLock() bool {
	if vsched.Active() {
		vsched.TracePoint("Mutex.TryLock")
		vsched.Point()
		ok := m.mu.TryLock()
		if ok {
			vsched.NoteWrite()
		} else {
			vsched.NoteLoad(m.addr())
		}
		return ok
	}
	return m.mu.TryLock()
}

func (m *Mutex) Unlock() {
	if vsched.Active() {
		vsched.TracePoint("Mutex.Unlock")
		vsched.Point()
		m.checkHeld()
		m.mu.Unlock()
		vsched.NoteWrite()
		return
	}
	if !vsched.FreeRunning {
		m.checkHeld()
	}
	m.mu.Unlock()
}

// checkHeld turns the runtime's unrecoverable "unlock of unlocked mutex" into an ordinary panic
// (exact under the cooperative scheduler and in sequential native phases).
func (m *Mutex) checkHeld() {
	if m.mu.TryLock() {
		m.mu.Unlock()
		panic("sync: unlock of unlocked mutex")
	}
}

// RWMutex is provided for completeness (otter does not use it today).
type RWMutex struct {
	w       Mutex
	readers int32
	real    sync.RWMutex
}

func (m *RWMutex) Lock() {
	if vsched.Active() {
		m.w.Lock()
		for atomic.LoadInt32(&m.readers) != 0 {
			vsched.Block(func() bool { return atomic.LoadInt32(&m.readers) == 0 })
		}
		return
	}
	m.real.Lock()
}

func (m *RWMutex) Unlock() {
	if vsched.Active() {
		m.w.Unlock()
		return
	}
	m.real.Unlock()
}

func (m *RWMutex) RLock() {
	if vsched.Active() {
		m.w.Lock()
		atomic.AddInt32(&m.readers, 1)
		m.w.Unlock()
		return
	}
	m.real.RLock()
}

func (m *RWMutex) RUnlock() {
	if vsched.Active() {
		vsched.Point()
		atomic.AddInt32(&m.readers, -1)
		vsched.NoteWrite()
		return
	}
	m.real.RUnlock()
}

// WaitGroup keeps a shadow counter for the scheduler next to the real group.
type WaitGroup struct {
	n    atomic.Int64
	real sync.WaitGroup
}

func (w *WaitGroup) Add(d int) {
	if vsched.Active() {
		vsched.TracePoint("WaitGroup.Add")
		vsched.Point()
		w.n.Add(int64(d))
		w.real.Add(d)
		vsched.NoteWrite()
		return
	}
	w.n.Add(int64(d))
	w.real.Add(d)
}

func (w *WaitGroup) Done() { w.Add(-1) }

func (w *WaitGroup) Go(f func()) {
	w.Add(1)
	vsched.Go("wg.Go", func() {
		defer w.Done()
		f()
	})
}

func (w *WaitGroup) Wait() {
	if vsched.Active() {
		vsched.TracePoint("WaitGroup.Wait")
		vsched.Point()
		for w.n.Load() > 0 {
			vsched.Block(func() bool { return w.n.Load() <= 0 })
		}
		return
	}
	w.real.Wait()
}

// Once has a point-free fast path: runtime cleanups may call a completed Once
// from a foreign goroutine while another execution is being explored.
type Once struct {
	done    atomic.Bool
	running atomic.Bool
	mu      sync.Mutex
}

func (o *Once) Do(f func()) {
	if o.done.Load() {
		return
	}
	if vsched.Active() {
		vsched.TracePoint("Once.Do")
		vsched.Point()
		for o.running.Load() {
			vsched.Block(func() bool { return !o.running.Load() })
		}
		if o.done.Load() {
			return
		}
		o.running.Store(true)
		vsched.NoteWrite()
		defer func() {
			o.done.Store(true)
			o.running.Store(false)
			vsched.NoteWrite()
		}()
		f()
		return
	}
	o.mu.Lock()
	defer o.mu.Unlock()
	if !o.done.Load() {
		defer o.done.Store(true)
		f()
	}
}

// Cond may be copied by value after construction (otter does that once).
type Cond struct {
	L    Locker
	gen  *atomic.Uint64
	real *sync.Cond
}

func NewCond(l Locker) *Cond {
	return &Cond{L: l, gen: new(atomic.Uint64), real: sync.NewCond(l)}
}

func (c *Cond) Wait() {
	if vsched.Active() {
		vsched.TracePoint("Cond.Wait")
		g := c.gen.Load()
		c.L.Unlock()
		for c.gen.Load() == g {
			vsched.Block(func() bool { return c.gen.Load() != g })
		}
		c.L.Lock()
		return
	}
	c.real.Wait()
}

func (c *Cond) Broadcast() {
	if vsched.Active() {
		vsched.TracePoint("Cond.Broadcast")
		vsched.Point()
		c.gen.Add(1)
		vsched.NoteWrite()
		return
	}
	c.gen.Add(1)
	c.real.Broadcast()
}

func (c *Cond) Signal() { c.Broadcast() }

// Pool is the legal degenerate pool: Get never returns a previously Put value.
type Pool struct {
	New func() any
}

func (p *Pool) Get() any {
	if p.New != nil {
		return p.New()
	}
	return nil
}

func (p *Pool) Put(any) {}

// Map and OnceFunc etc. are not used by otter.
