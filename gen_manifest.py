#!/usr/bin/env python3
"""Regenerates MANIFEST.json from the table below (kept in one place so it is always schema-valid)."""
import json, sys
ENV = "GOFLAGS=-mod=mod GOPROXY=off GOSUMDB=off GOTOOLCHAIN=local"
claimed = {
 "C04": dict(
   text="Exhaustive preemption-bounded exploration of concurrent cache histories (update/insert/invalidate/SetMaximum, weight changes; caller-runs and default executors, capacity 1-3): at quiescence after CleanUp the total weight is within GetMaximum, oversized entries are gone, zero-weight entries were never evicted for size.",
   note="2-3 threads x 1-2 ops, preemption bound 2 (quick) / 3 (thorough); SC interleavings at sync/atomic granularity.",
   technique="stateless model checking of the implementation: controlled scheduler + preemption-bounded DFS, quiescence invariant",
   ref="5/C04"),
 "C05": dict(
   text="Same exploration with an injected structural audit at quiescence: every live table node is linked exactly once in the deque matching its queue type (and in one timer-wheel slot), every linked node is the live table node of its key, per-queue weight sums equal the running totals; public views (WeightedSize, EstimatedSize, Hottest/Coldest vs All) agree.",
   note="Audit code is verification-only (build tag verif, injected by overlay); bounds as C04.",
   technique="stateless model checking of the implementation: controlled scheduler + preemption-bounded DFS, structural audit",
   ref="5/C05"),
 "C06": dict(
   text="Same exploration with an event ledger: every value ever installed is either present or was delivered exactly once to OnAtomicDeletion and exactly once to OnDeletion, with its key, a cause justified by what removed it, equal causes in both handlers, and per-key atomic order consistent with install order.",
   note="Unique value per write makes the ledger a set comparison; bounds as C04.",
   technique="stateless model checking of the implementation: controlled scheduler + preemption-bounded DFS, event ledger",
   ref="5/C06"),
 "C14": dict(
   text="All interleavings (preemption bound 1-2 quick, 2-3 thorough) of writers, readers, CleanUp and every other holder of the eviction lock with the default executor (spawned maintenance goroutines are managed threads): when every goroutine has finished and without any further cache call the write buffer is empty, the drain status is idle, notifications are delivered and the bound holds; deadlock/livelock are violations.",
   note="MaximumSize 2-8, 2-3 threads; the executor's `go` is turned into a managed thread by the overlay.",
   technique="stateless model checking of the implementation: controlled scheduler + preemption-bounded DFS over the drain-status protocol",
   ref="5/C14"),
 "C15": dict(
   text="All interleavings (pb 2-3 quick, 3-4 thorough) of get/compute/delete/range/clear on the real table with forced bucket and meta-byte collisions, across grow, shrink, clear and two concurrent growers: history linearizable against a map (Wing-Gong search), callbacks exactly once, Size == keys and nothing lost at quiescence, Range weakly consistent (no duplicates, no stale entries, nothing present throughout is missed).",
   note="Small-scope table constants (2 root buckets) in most scenarios, native 32-bucket table in thorough; hashes chosen by the harness.",
   technique="stateless model checking of the implementation: controlled scheduler + preemption-bounded DFS + linearizability search",
   ref="5/C15"),
 "C16": dict(
   text="Exhaustive preemption-bounded exploration (all interleavings of 2-3 producers and the consumer on the real MPSC queue at sync/atomic granularity, pb<=2-3 quick, pb<=3-5 thorough) across chunk switches and the full boundary; oracle: exactly-once, per-producer order, justified refusals, termination.",
   note="SC interleavings of the intercepted atomics; small queue capacities (2..16); plain accesses assumed race-free.",
   technique="stateless model checking of the implementation: controlled scheduler + preemption-bounded DFS",
   ref="5/C16"),
 "C17": dict(
   text="All interleavings of 2-3 recorders with the draining consumer on the real striped ring buffer, with the ring pre-positioned at wrap-around and full, first-use initialisation, stripe attach and table doubling (random stripe answers as environment choices): delivered entries are a sub-multiset of the successfully recorded ones, never twice, Len within capacity, everything recorded is delivered by a drain at quiescence.",
   note="Ring size 4 (small-scope build) and 16 (native); pb 2, env deviations 2 (quick).",
   technique="stateless model checking of the implementation: controlled scheduler + preemption/deviation-bounded DFS",
   ref="5/C17"),
}
props = [json.loads(l) for l in open("/verif/properties.jsonl")]
checks, na = [], []
for p in props:
    pid = p["id"]
    if pid in claimed:
        c = claimed[pid]
        checks.append({
          "property_id": pid,
          "quick_cmd": f"bin/vcheck {pid} --tier quick",
          "thorough_cmd": f"bin/vcheck {pid} --tier thorough",
          "evidence_file": f"/verif/evidence/{pid}.json",
          "replay_cmd_template": f"bin/vcheck {pid} --replay {{path}}",
          "engine": c.get("engine","vsched+harness"),
          "level_claimed": {"category":"model_checking","text":c["text"],"design_ref":c["ref"]},
          "level_note": c["note"],
          "technique": c["technique"],
        })
    else:
        na.append({"property_id": pid, "reason": "check not built yet (work in progress; planned per DESIGN.md section 5)"})
m = {
 "version": 1,
 "setup_cmd": f"cd /verif && {ENV} go1.26.8 build -o bin/vcheck ./cmd/vcheck && bin/vcheck setup",
 "hooks": {
   "guard": "verif",
   "enable": "go1.26.8 build -tags verif -overlay <generated from /repo's working tree by /verif/instrument> ./internal/verif/worker (no hook code is committed to /repo; shims, seams and in-package zz_verif_*.go files are injected by overlay)",
   "baseline_off_cmd": f"cd /repo && {ENV} go1.26.8 test -vet=off -count=1 ./...",
   "source_commits": [],
   "add_only": True,
 },
 "engines": [
   {"name":"vsched+harness","path":"/verif/inject/internal/verif","serves_properties":[c["property_id"] for c in checks],
    "kind_free_text":"controlled cooperative scheduler over sync/sync-atomic shims + stateless preemption-bounded DFS on the real code (E2); sequential explicit-state BFS against a Go reference model (E1)"},
   {"name":"instrument","path":"/verif/instrument","serves_properties":[c["property_id"] for c in checks],
    "kind_free_text":"go/packages-based source rewriter producing a go build -overlay from /repo's working tree"},
 ],
 "checks": checks,
 "not_applicable": na,
 "notes": "All checks rebuild the instrumented worker from /repo's current working tree (content-hash keyed cache under /verif/.cache). Exit 0 = held within bounds, 1 = VIOLATION line, 2 = INFRA-ERROR.",
}
json.dump(m, open("/verif/MANIFEST.json","w"), indent=1)
print("claimed", len(checks), "na", len(na))
