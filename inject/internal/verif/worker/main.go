// Command worker runs one verification job (JSON on stdin or -job) and prints
// one JSON result on stdout.
package main

import (
	"encoding/json"
	"flag"
	"fmt"
	"io"
	"os"
	"runtime"
	"runtime/debug"
	"runtime/pprof"
	"time"

	"github.com/maypok86/otter/v2/internal/verif/harness"
)

func main() {
	jobStr := flag.String("job", "", "job JSON (default: stdin)")
	list := flag.String("list", "", "print the job plan for a property")
	tier := flag.String("tier", "quick", "quick|thorough")
	procs := flag.Int("procs", 1, "GOMAXPROCS")
	flag.Parse()
	runtime.GOMAXPROCS(*procs)
	debug.SetGCPercent(200)
	if *list != "" {
		jobs := harness.Plan(*list, *tier)
		b, _ := json.Marshal(jobs)
		fmt.Println(string(b))
		return
	}
	var data []byte
	if *jobStr != "" {
		data = []byte(*jobStr)
	} else {
		data, _ = io.ReadAll(os.Stdin)
	}
	var job harness.Job
	if err := json.Unmarshal(data, &job); err != nil {
		fmt.Fprintln(os.Stderr, "bad job:", err)
		os.Exit(2)
	}
	go watchdog(&job)
	res := harness.RunJob(&job)
	if pf := os.Getenv("VERIF_MEMPROF"); pf != "" {
		f, _ := os.Create(pf)
		runtime.GC()
		pprof.Lookup("heap").WriteTo(f, 0)
		f.Close()
		f2, _ := os.Create(pf + ".goroutines")
		pprof.Lookup("goroutine").WriteTo(f2, 1)
		f2.Close()
	}
	b, _ := json.Marshal(res)
	fmt.Println(string(b))
}

// watchdog: one execution of a closed harness takes microseconds to milliseconds. If no execution
// completes for 60 s the code under check is spinning outside the scheduler's control (native
// set-up / oracle phase): report it as a hang instead of dying on a timeout or on memory.
func watchdog(job *harness.Job) {
	last := harness.Progress.Load()
	idle := 0
	for {
		time.Sleep(time.Second)
		cur := harness.Progress.Load()
		if cur != last {
			last, idle = cur, 0
			continue
		}
		idle++
		if idle < 60 {
			continue
		}
		buf := make([]byte, 1<<16)
		n := runtime.Stack(buf, true)
		res := &harness.Result{Job: job, Engine: "watchdog", ByCost: map[string]int{}, ViolCount: map[string]int{"hang/native-phase": 1}}
		res.Violations = []harness.Violation{{Discrepancy: harness.Discrepancy{Kind: "hang", Subject: "native-phase", Detail: "no execution completed for 60 s: an operation does not return (outside the controlled scheduler)\n" + harness.OtterFrames(string(buf[:n]))}, Scenario: job.Scenario, Params: job.Params}}
		b, _ := json.Marshal(res)
		fmt.Println(string(b))
		os.Exit(0)
	}
}
