package harness

import (
	"encoding/json"
	"fmt"
	"sort"
	"strings"
	"unsafe"

	"github.com/maypok86/otter/v2/internal/hashmap"
	"github.com/maypok86/otter/v2/internal/verif/vdet"
)

// C15: the CLHT-style table is a linearizable map under concurrent
// get/compute/delete/range/clear while it grows and shrinks.

type hnode struct {
	k, v int
}

func (n *hnode) Key() int                  { return n.k }
func (n *hnode) Value() int                { return n.v }
func (n *hnode) AsPointer() unsafe.Pointer { return unsafe.Pointer(n) }

type hmgr struct{}

func (hmgr) FromPointer(p unsafe.Pointer) *hnode { return (*hnode)(p) }
func (hmgr) IsNil(n *hnode) bool                 { return n == nil }

// c15Op: "get k" | "ins k" (insert-or-update) | "del k" | "nop k" (compute returning what it saw)
// | "range" | "clear" | "size"
type c15Params struct {
	Size    int        `json:"size"`    // NewWithSize hint
	Hashes  []uint64   `json:"hashes"`  // hash per key index (h1 = hash>>7, h2 = hash&0x7f)
	Setup   []string   `json:"setup"`   // native ops before the run
	Threads [][]string `json:"threads"` // ops per thread
	Procs   int        `json:"procs"`   // GOMAXPROCS answer inside resize (parallel copy fan-out)
	MinLen  int        `json:"min_len"` // expected minimal table length of this build (2 small, 32 native)
}

func init() {
	Register(&Scenario{Name: "c15.hashmap", Body: c15Body})
}

func c15Body(x *Exec, raw json.RawMessage) {
	var p c15Params
	if err := json.Unmarshal(raw, &p); err != nil {
		panic(err)
	}
	hashes := p.Hashes
	vdet.HashFn = func(seed uint64, key any) uint64 {
		k := key.(int)
		if k >= 0 && k < len(hashes) {
			return hashes[k]
		}
		return vdet.DefaultHash(0, key)
	}
	if p.Procs > 0 {
		vdet.Procs = p.Procs
	}
	m := hashmap.NewWithSize[int, int, *hnode](hmgr{}, p.Size)
	if got := m.VerifTableLen(); p.MinLen > 0 && got < p.MinLen {
		x.Fail("infra", "table-len", "table has %d buckets, scenario expects at least %d", got, p.MinLen)
	}
	nextVal := 1000
	model := map[int]int{}
	var hist []LinOp
	type rangeRec struct {
		call, ret int64
		items     [][2]int
	}
	var ranges []rangeRec
	type writeRec struct { // for the range oracle
		key, val  int
		present   bool
		call, ret int64
		prevVal   int
		prevFound bool
		thread    int
		calls     int
	}
	var writes []writeRec
	growths0, shrinks0 := int64(0), int64(0)

	do := func(th int, op string, native bool) {
		f := strings.Fields(op)
		key := 0
		if len(f) > 1 {
			fmt.Sscan(f[1], &key)
		}
		switch f[0] {
		case "get":
			c := x.Now()
			n := m.Get(key)
			r := x.Now()
			val, found := 0, false
			if n != nil {
				val, found = n.v, true
				if n.k != key {
					x.Fail("wrong-key", "Get", "Get(%d) returned a node with key %d", key, n.k)
				}
			}
			x.Obsf("T%d get %d -> %d,%v", th, key, val, found)
			if native {
				if mv, ok := model[key]; ok != found || (ok && mv != val) {
					x.Fail("sequential-mismatch", "Get", "set-up Get(%d) = %d,%v, model %d,%v", key, val, found, mv, ok)
				}
				return
			}
			lockFree()
			defer unlockFree()
			hist = append(hist, LinOp{Thread: th, Call: c, Ret: r, Name: fmt.Sprintf("get(%d)=%d,%v", key, val, found), Apply: func(s LinState) []LinState {
				if found && s[key] == int64(val) || !found && s[key] == absent {
					return []LinState{s}
				}
				return nil
			}})
		case "ins", "del", "nop":
			lockFree()
			nextVal++
			nv := nextVal
			unlockFree()
			calls := 0
			sawVal, sawFound := 0, false
			c := x.Now()
			res := m.Compute(key, func(old *hnode) *hnode {
				calls++
				sawVal, sawFound = 0, false
				if old != nil {
					sawVal, sawFound = old.v, true
				}
				switch f[0] {
				case "ins":
					return &hnode{k: key, v: nv}
				case "del":
					return nil
				}
				return old
			})
			r := x.Now()
			newVal, newPresent := sawVal, sawFound
			switch f[0] {
			case "ins":
				newVal, newPresent = nv, true
			case "del":
				newVal, newPresent = 0, false
			}
			if (res != nil) != newPresent || (res != nil && res.v != newVal) {
				x.Fail("wrong-result", "Compute", "Compute(%s %d) returned %v, expected present=%v val=%d", f[0], key, res, newPresent, newVal)
			}
			if calls != 1 {
				x.Fail("callback-count", "Compute", "compute function for %s %d ran %d times", f[0], key, calls)
			}
			x.Obsf("T%d %s %d saw %d,%v", th, f[0], key, sawVal, sawFound)
			if native {
				if mv, ok := model[key]; ok != sawFound || (ok && mv != sawVal) {
					x.Fail("sequential-mismatch", "Compute", "set-up %s(%d) saw %d,%v, model %d,%v", f[0], key, sawVal, sawFound, mv, ok)
				}
				if newPresent {
					model[key] = newVal
				} else {
					delete(model, key)
				}
				return
			}
			lockFree()
			defer unlockFree()
			if f[0] != "nop" {
				writes = append(writes, writeRec{key: key, val: newVal, present: newPresent, call: c, ret: r, prevVal: sawVal, prevFound: sawFound, thread: th, calls: calls})
			}
			sv, sf, nvv, np := sawVal, sawFound, newVal, newPresent
			hist = append(hist, LinOp{Thread: th, Call: c, Ret: r, Name: fmt.Sprintf("%s(%d) saw %d,%v", f[0], key, sv, sf), Apply: func(s LinState) []LinState {
				if sf && s[key] == int64(sv) || !sf && s[key] == absent {
					if np {
						s[key] = int64(nvv)
					} else {
						s[key] = absent
					}
					return []LinState{s}
				}
				return nil
			}})
		case "range":
			c := x.Now()
			var items [][2]int
			m.Range(func(n *hnode) bool {
				items = append(items, [2]int{n.k, n.v})
				return true
			})
			r := x.Now()
			sorted := append([][2]int(nil), items...)
			sort.Slice(sorted, func(i, j int) bool { return sorted[i][0] < sorted[j][0] })
			x.Obsf("T%d range %v", th, sorted)
			if native {
				// set-up phase (sequential): the iteration yields exactly the keys present, each once, with its value
				seen := map[int]bool{}
				for _, it := range sorted {
					if seen[it[0]] {
						x.Fail("range-duplicate", "Range", "set-up Range yields key %d twice", it[0])
					}
					seen[it[0]] = true
					if v, ok := model[it[0]]; !ok || v != it[1] {
						x.Fail("range-stale", "Range", "set-up Range yields %d=%d which is not present (the map holds %v)", it[0], it[1], model)
					}
				}
				for k := range model {
					if !seen[k] {
						x.Fail("range-missed", "Range", "set-up Range does not yield key %d which is present", k)
					}
				}
				return
			}
			lockFree()
			ranges = append(ranges, rangeRec{c, r, items})
			unlockFree()
		case "clear":
			c := x.Now()
			m.Clear()
			r := x.Now()
			x.Obsf("T%d clear", th)
			if native {
				model = map[int]int{}
				return
			}
			lockFree()
			defer unlockFree()
			writes = append(writes, writeRec{key: -1, call: c, ret: r})
			hist = append(hist, LinOp{Thread: th, Call: c, Ret: r, Name: "clear", Apply: func(s LinState) []LinState {
				return []LinState{EmptyLinState()}
			}})
		case "size":
			sz := m.Size()
			x.Obsf("T%d size %d", th, sz)
			if native && sz != len(model) {
				x.Fail("size-mismatch", "Size", "set-up Size() = %d with %d keys", sz, len(model))
			}
		default:
			panic("unknown op " + op)
		}
	}
	for _, op := range p.Setup {
		do(-1, op, true)
	}
	init := EmptyLinState()
	for k, v := range model {
		init[k] = int64(v)
	}
	initModel := map[int]int{}
	for k, v := range model {
		initModel[k] = v
	}
	growths0, shrinks0 = m.VerifResizes()
	var bodies []func()
	for ti, ops := range p.Threads {
		ti, ops := ti, ops
		bodies = append(bodies, func() {
			for _, op := range ops {
				do(ti, op, false)
			}
		})
	}
	ok := x.Threads(bodies...)
	g1, s1 := m.VerifResizes()
	if g1 > growths0 {
		x.Count("grew")
	}
	if g1 > growths0+1 {
		x.Count("grew-twice")
	}
	if s1 > shrinks0 {
		x.Count("shrank")
	}
	if !ok {
		return
	}
	if lin, best := Linearizable(hist, init); !lin {
		var names []string
		for _, h := range hist {
			names = append(names, fmt.Sprintf("T%d[%d,%d]%s", h.Thread, h.Call, h.Ret, h.Name))
		}
		x.Fail("not-linearizable", "hashmap", "no linearization (longest legal prefix %d of %d): %s", best, len(hist), strings.Join(names, " | "))
	}
	// final state: replay the linearization-independent facts at quiescence
	final := map[int]int{}
	m.Range(func(n *hnode) bool {
		if _, dup := final[n.k]; dup {
			x.Fail("range-duplicate", "Range", "quiescent Range yields key %d twice", n.k)
		}
		final[n.k] = n.v
		return true
	})
	if sz := m.Size(); sz != len(final) {
		x.Fail("size-mismatch", "Size", "Size() = %d but the table holds %d keys at quiescence", sz, len(final))
	}
	for k, v := range final {
		if n := m.Get(k); n == nil || n.v != v {
			x.Fail("lost-key", "Get", "key %d is yielded by Range at quiescence but Get does not find it", k)
		}
	}
	// every key whose last write is unambiguous must be there: keys never touched by the threads
	touched := map[int]bool{}
	cleared := false
	for _, w := range writes {
		if w.key < 0 {
			cleared = true
		} else {
			touched[w.key] = true
		}
	}
	if !cleared {
		for k, v := range initModel {
			if !touched[k] {
				if fv, ok := final[k]; !ok || fv != v {
					x.Fail("lost-key", "resize", "key %d (inserted before the run and never removed) is missing or changed at quiescence: %d,%v", k, fv, ok)
				}
				if n := m.Get(k); n == nil || n.v != v {
					x.Fail("lost-key", "Get", "key %d (inserted before the run and never removed) is not found at quiescence", k)
				}
			}
		}
	}
	// weakly consistent iteration
	installedBefore := func(k, v int, t int64) bool {
		if iv, ok := initModel[k]; ok && iv == v {
			return true
		}
		for _, w := range writes {
			if w.key == k && w.present && w.val == v && w.ret < t {
				return true
			}
		}
		return false
	}
	for _, rg := range ranges {
		seen := map[int]int{}
		for _, it := range rg.items {
			k, v := it[0], it[1]
			seen[k]++
			if seen[k] > 1 {
				x.Fail("range-duplicate", "Range", "Range yielded key %d twice", k)
			}
			// produced: v was (or could have been) installed for k before the range ended
			produced := false
			if iv, ok := initModel[k]; ok && iv == v {
				produced = true
			}
			for _, w := range writes {
				if w.key == k && w.present && w.val == v && w.call < rg.ret {
					produced = true
				}
			}
			// consumed: the unique successor write of v (values are unique per write), or a clear that
			// certainly followed its installation, had returned before the range began
			consumed := false
			for _, o := range writes {
				if o.ret >= rg.call {
					continue
				}
				if o.key == k && o.prevFound && o.prevVal == v {
					consumed = true
				}
				if o.key < 0 && installedBefore(k, v, o.call) {
					consumed = true
				}
			}
			if !produced || consumed {
				x.Fail("range-stale", "Range", "Range [%d,%d] yielded %d=%d which was removed or replaced before the call began (or was never written)", rg.call, rg.ret, k, v)
			}
		}
		// keys present for the whole call must be yielded
		mustSee := map[int]bool{}
		for k := range initModel {
			mustSee[k] = true
		}
		for _, w := range writes {
			if w.key >= 0 && w.present && w.ret < rg.call {
				mustSee[w.key] = true
			}
		}
		for _, o := range writes {
			if o.call < rg.ret {
				if o.key < 0 {
					mustSee = map[int]bool{}
				} else if !o.present {
					delete(mustSee, o.key)
				}
			}
		}
		for k := range mustSee {
			if seen[k] == 0 {
				x.Fail("range-missed", "Range", "Range [%d,%d] did not yield key %d which was present for its whole duration", rg.call, rg.ret, k)
			}
		}
	}
}
