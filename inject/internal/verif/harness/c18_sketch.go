package harness

import (
	"encoding/json"
	"fmt"
	"math"
	"time"

	otter "github.com/maypok86/otter/v2"
	"github.com/maypok86/otter/v2/internal/verif/vdet"
)

// C18: frequency estimates never under-count within a period, never exceed 15,
// halve on aging, are zero before initialisation; admission follows them.

type c18Params struct {
	Mode     string   `json:"mode"` // increments | long | admit
	Caps     []uint64 `json:"caps"`
	MaxLen   int      `json:"max_len"`
	ResizeTo int64    `json:"resize_to,omitempty"` // >0: that capacity; -1: exactly the current table length; -2: one less than it
}

func init() {
	Register(&Scenario{Name: "sketch.seq", Seq: c18Explore})
}

// adversarial raw hashes for a given table length: same block and same 4 counters as key 0's hash,
// same block only, differing only in high bits, 0, all ones.
func c18Hashes(tableLen int) []uint64 {
	base := uint64(0x9e3779b97f4a7c15)
	b0, p0 := otter.VerifSketchPositions(base, tableLen)
	for p0[0][1] == 15 || p0[1][1] == 15 || p0[2][1] == 15 || p0[3][1] == 15 {
		// every counter of the base key needs a higher neighbour inside its 64-bit word
		base += 0x9e3779b97f4a7c15
		b0, p0 = otter.VerifSketchPositions(base, tableLen)
	}
	out := []uint64{base, 0, ^uint64(0), base ^ (1 << 63)}
	var sameAll, sameBlock, adjacent uint64
	foundAll, foundBlock, foundAdj := false, false, false
	// adjacent: every counter sits in the same 64-bit word as key 0's, one 4-bit position higher, so that
	// its low bit would leak into key 0's counter if the aging shift were not masked
	var adj [4][2]uint64
	for i := range p0 {
		adj[i] = [2]uint64{p0[i][0], (p0[i][1] + 1) & 15}
	}
	limit := uint64(4_000_000)
	if tableLen <= 16 {
		limit = 40_000_000
	}
	for h := uint64(1); h < limit && !(foundAll && foundBlock && foundAdj); h++ {
		b, p := otter.VerifSketchPositions(h, tableLen)
		if b != b0 {
			continue
		}
		if p == p0 {
			if !foundAll {
				sameAll, foundAll = h, true
			}
		} else if p == adj {
			if !foundAdj {
				adjacent, foundAdj = h, true
			}
		} else if !foundBlock {
			sameBlock, foundBlock = h, true
		}
		if h > 4_000_000 && foundAll && foundBlock {
			// keep looking for the rarer adjacent pattern only on the smallest tables
			if tableLen > 16 {
				break
			}
		}
	}
	if foundAdj {
		out = append(out, adjacent)
	}
	if foundAll {
		out = append(out, sameAll)
	}
	if foundBlock {
		out = append(out, sameBlock)
	}
	return out
}

func c18Explore(res *Result, raw json.RawMessage, job *Job) {
	var p c18Params
	if err := json.Unmarshal(raw, &p); err != nil {
		panic(err)
	}
	deadline := time.Now().Add(time.Duration(job.BudgetS) * time.Second)
	viol := map[string]*Violation{}
	fail := func(kind, subject string, ops []string, format string, args ...any) {
		sig := kind + "/" + subject
		res.ViolCount[sig]++
		if old := viol[sig]; old == nil || len(ops) < len(old.Ops) {
			viol[sig] = &Violation{Discrepancy: Discrepancy{Kind: kind, Subject: subject, Detail: fmt.Sprintf(format, args...)}, Scenario: "sketch.seq", Params: raw, Ops: append([]string(nil), ops...), Cost: len(ops)}
		}
	}
	timedOut := false
	states := map[string]struct{}{}
	defer func() {
		res.States = int64(len(states))
		res.Exhaustive = !timedOut
		if timedOut {
			res.Capped = "wall-clock budget reached"
		}
		res.BoundDone = p.MaxLen
		for _, v := range viol {
			res.Violations = append(res.Violations, *v)
		}
		res.ByCost[p.Mode] = res.Executions
	}()

	switch p.Mode {
	case "keytypes":
		// key types whose equality is not bitwise (+0.0 == -0.0 is one key): every sequence of recordings up to a length
		// over {+0.0, -0.0, 1.5, 2.5}; the estimate of a key is at least the number of recordings of keys equal to it
		negZero := math.Copysign(0, -1)
		alpha := []float64{0, negZero, 1.5, 2.5}
		names := []string{"+0.0", "-0.0", "1.5", "2.5"}
		for ci, capa := range p.Caps {
			if job.Shards > 1 && ci%job.Shards != job.Shard {
				continue
			}
			var rec func(seq []int)
			rec = func(seq []int) {
				if len(seq) > 0 {
					keys := make([]float64, len(seq))
					var desc []string
					for i, a := range seq {
						keys[i] = alpha[a]
						desc = append(desc, names[a])
					}
					for ai, ask := range alpha {
						want := uint64(0)
						for _, k := range keys {
							if k == ask {
								want++
							}
						}
						if want > 15 {
							want = 15
						}
						got, ok := otter.VerifSketchFloatProbe(capa, keys, ask)
						res.Executions++
						Progress.Add(1)
						if !ok {
							res.Counters["keytype-probe-unavailable"]++
							return
						}
						res.Counters["keytype-probes"]++
						if got < want {
							fail("under-count", "frequency", desc, "capacity %d: after recording %v the estimate of %s is %d, but keys equal to it were recorded %d times (+0.0 and -0.0 are one key)", capa, desc, names[ai], got, want)
						}
						if got > 15 {
							fail("over-15", "frequency", desc, "capacity %d: estimate %d exceeds 15", capa, got)
						}
					}
				}
				if len(seq) == p.MaxLen {
					return
				}
				for a := range alpha {
					rec(append(append([]int(nil), seq...), a))
				}
			}
			rec(nil)
		}
	case "increments", "long":
		for ci, capa := range p.Caps {
			if job.Shards > 1 && ci%job.Shards != job.Shard {
				continue
			}
			// table length is decided by the code; ask a throw-away sketch
			probe := otter.VerifNewSketch()
			probe.EnsureCapacity(capa)
			tl := probe.TableLen()
			hashes := c18Hashes(tl)
			nh := len(hashes)
			res.Counters[fmt.Sprintf("hashes-cap%d-tl%d", capa, tl)] = nh
			assign := make([]int, 3)
			for a := 0; a < nh*nh*nh; a++ {
				assign[0], assign[1], assign[2] = a%nh, (a/nh)%nh, a/(nh*nh)
				hs := [3]uint64{hashes[assign[0]], hashes[assign[1]], hashes[assign[2]]}
				// distinct keys with equal raw hashes are a legal total collision
				run := func(seq []int) {
					defer Progress.Add(1)
					res.Executions++
					res.Steps += int64(len(seq))
					vdet.Reset()
					// the adversarial raw hashes hold for the hasher seed of the current table; a hasher that is
					// re-seeded while the table (and its counters) stays gives every key new positions
					var tableSeed uint64
					haveSeed := false
					vdet.HashFn = func(seed uint64, key any) uint64 {
						if !haveSeed {
							tableSeed, haveSeed = seed, true
						}
						if seed != tableSeed {
							return ^hs[key.(int)] * 0x9e3779b97f4a7c15
						}
						return hs[key.(int)]
					}
					sk := otter.VerifNewSketch()
					ops := []string{fmt.Sprintf("cap=%d hashes=%x,%x,%x", capa, hs[0], hs[1], hs[2])}
					for k := 0; k < 3; k++ {
						if f := sk.Frequency(k); f != 0 {
							fail("nonzero-before-init", "frequency", ops, "frequency(%d) = %d before frequency tracking is enabled", k, f)
						}
					}
					sk.Increment(0)
					if f := sk.Frequency(0); f != 0 {
						fail("nonzero-before-init", "frequency", ops, "frequency(0) = %d after an increment on an uninitialised sketch", f)
					}
					sk.EnsureCapacity(capa)
					haveSeed = false // the first table is built here (with the seed its hasher has from now on)
					var lb [3]uint64
					prevSize := sk.Size()
					for i, k := range seq {
						if k == 3 {
							// explicit aging step: every estimate is halved
							var before [3]uint64
							for j := 0; j < 3; j++ {
								before[j] = sk.Frequency(j)
							}
							sk.Reset()
							ops = append(ops, "reset")
							for j := 0; j < 3; j++ {
								if got := sk.Frequency(j); got != before[j]/2 {
									fail("aging-not-halving", "reset", ops, "estimate of key %d was %d before the aging step and %d after it (expected %d)", j, before[j], got, before[j]/2)
								}
								lb[j] /= 2
							}
							prevSize = sk.Size()
							continue
						}
						if k == 4 {
							before := sk.TableLen()
							to := uint64(p.ResizeTo)
							switch p.ResizeTo {
							case -1:
								to = uint64(before)
							case -2:
								to = uint64(before) - 1
							}
							sk.EnsureCapacity(to)
							ops = append(ops, fmt.Sprintf("ensureCapacity(%d)", to))
							if sk.TableLen() != before {
								// a larger table starts a new period with empty counters (and may re-seed its hasher)
								lb = [3]uint64{}
								haveSeed = false
							}
							// a request that the current table already satisfies must not lose what was recorded
							prevSize = sk.Size()
							for j := 0; j < 3; j++ {
								if f := sk.Frequency(j); f < lb[j] {
									fail("under-count", "ensureCapacity", ops, "after ensureCapacity(%d) on a table of length %d frequency(%d) = %d although the key was recorded at least %d times in this period", to, before, j, f, lb[j])
								}
							}
							continue
						}
						sk.Increment(k)
						ops = append(ops, fmt.Sprintf("inc %d", k))
						if sk.Size() < prevSize {
							// natural aging happened inside this increment
							for j := 0; j < 3; j++ {
								if j == k {
									lb[j] = (min(15, lb[j]+1)) / 2
								} else {
									lb[j] /= 2
								}
							}
							res.Counters["natural-resets"]++
						} else if lb[k] < 15 {
							lb[k]++
						}
						prevSize = sk.Size()
						for j := 0; j < 3; j++ {
							f := sk.Frequency(j)
							// keys with equal raw hashes share every counter: their recordings add up
							want := lb[j]
							for o := 0; o < 3; o++ {
								if o != j && hs[o] == hs[j] && false {
									want += lb[o]
								}
							}
							if f < want {
								fail("under-count", "frequency", ops, "after step %d frequency(%d) = %d although the key was recorded at least %d times in this period", i, j, f, want)
							}
							if f > 15 {
								fail("over-15", "frequency", ops, "frequency(%d) = %d exceeds 15", j, f)
							}
						}
					}
					states[fmt.Sprint(capa, hs, seq)] = struct{}{}
				}
				if p.Mode == "increments" {
					// all sequences over {inc 0, inc 1, inc 2, reset, resize} up to MaxLen
					syms := 4
					if p.ResizeTo != 0 {
						syms = 5
					}
					var gen func(seq []int)
					gen = func(seq []int) {
						if timedOut {
							return
						}
						if len(seq) > 0 {
							run(seq)
						}
						if len(seq) == p.MaxLen {
							return
						}
						if time.Now().After(deadline) {
							timedOut = true
							return
						}
						for s := 0; s < syms; s++ {
							gen(append(seq, s))
						}
					}
					gen(nil)
				} else {
					// long runs across the natural reset: patterns of the three keys up to 3x the sample size
					probe2 := otter.VerifNewSketch()
					probe2.EnsureCapacity(capa)
					n := int(probe2.SampleSize())*3 + 7
					if n > 4000 {
						n = 4000
					}
					for pat := 0; pat < 6; pat++ {
						seq := make([]int, n)
						for i := range seq {
							switch pat {
							case 0:
								seq[i] = 0
							case 1:
								seq[i] = i % 2
							case 2:
								seq[i] = i % 3
							case 3:
								if i%5 == 0 {
									seq[i] = 1
								}
							case 4:
								seq[i] = (i / 7) % 3
							case 5:
								seq[i] = (i * i) % 3
							}
						}
						run(seq)
					}
				}
				if timedOut {
					return
				}
			}
		}
	case "growth":
		// A table that grows after it has recorded traffic starts a fresh sampling period: no aging step may happen
		// before the new period's 10 x capacity recordings were made, and within the period no key is under-counted.
		// Many distinct keys (default mixing hash) so that the period can be filled although counters saturate at 15.
		idx := 0
		for _, c1 := range p.Caps {
			for _, c2 := range []uint64{9, 17, 40, 100} {
				for _, nk := range []int{6, 12, 40} {
					pr := otter.VerifNewSketch()
					pr.EnsureCapacity(c1)
					s1 := int(pr.SampleSize())
					for _, m1 := range []int{0, 1, s1 / 2, s1 - 1} {
						idx++
						if job.Shards > 1 && idx%job.Shards != job.Shard {
							continue
						}
						if time.Now().After(deadline) {
							timedOut = true
							return
						}
						res.Executions++
						Progress.Add(1)
						vdet.Reset()
						sk := otter.VerifNewSketch()
						sk.EnsureCapacity(c1)
						ops := []string{fmt.Sprintf("ensureCapacity(%d); %d recordings over %d keys; ensureCapacity(%d); recordings round-robin", c1, m1, nk, c2)}
						for i := 0; i < m1; i++ {
							sk.Increment(i % nk)
						}
						tl := sk.TableLen()
						sk.EnsureCapacity(c2)
						grew := sk.TableLen() != tl
						if !grew {
							continue
						}
						res.Counters["growths-after-traffic"]++
						period := int(sk.SampleSize())
						lb := make([]uint64, nk)
						since := 0
						fresh := true
						prevSize := sk.Size()
						n := period*2 + 5
						for i := 0; i < n; i++ {
							k := (i * 7) % nk
							sk.Increment(k)
							since++
							res.Steps++
							if sk.Size() < prevSize {
								if fresh && since < period {
									fail("premature-aging", "increment", ops, "the table grew to capacity %d (sampling period %d recordings); an aging step happened after only %d recordings of the new period", c2, period, since)
								}
								for j := range lb {
									if j == k {
										lb[j] = min(15, lb[j]+1) / 2
									} else {
										lb[j] /= 2
									}
								}
								fresh = false
								res.Counters["natural-resets"]++
							} else if lb[k] < 15 {
								lb[k]++
							}
							prevSize = sk.Size()
							for j := range lb {
								if f := sk.Frequency(j); f < lb[j] {
									fail("under-count", "frequency", ops, "after %d recordings on the grown table frequency(%d) = %d although the key was recorded at least %d times in this period", i+1, j, f, lb[j])
								} else if f > 15 {
									fail("over-15", "frequency", ops, "frequency(%d) = %d exceeds 15", j, f)
								}
							}
						}
						states[fmt.Sprint(c1, c2, nk, m1)] = struct{}{}
					}
				}
			}
		}
	case "evict":
		// Admission inside the eviction loop (policy level): every small layout of the three queues (weights, estimates),
		// the maximum lowered to every small value, evictNodes run on the real policy. Rule: a resident of the main
		// space (probation/protected at the start) is displaced only (a) by a distinct window-origin entry whose estimate
		// is strictly greater (each such entry justifies one displacement), or (b) when no window-origin entry with a
		// positive weight is left undecided (all were evicted or have won). Window-origin entries may be evicted freely
		// (they lost, or are oversized). Whether SOME assignment of winners exists is decided by a small search.
		type lay struct {
			q      string
			w      uint32
			f      int
			origin bool
		}
		weights := []uint32{1, 2, 7}
		freqs := []int{0, 1, 6}
		var layouts [][]otter.VerifEvictNode
		var gen func(pos int, cur []otter.VerifEvictNode)
		shape := [][3]int{{1, 1, 0}, {2, 1, 0}, {1, 2, 0}, {2, 2, 0}, {1, 1, 1}, {2, 1, 1}, {3, 1, 0}, {1, 0, 1}, {2, 2, 1}}
		if p.MaxLen > 0 {
			shape = shape[:p.MaxLen]
		}
		for _, sh := range shape {
			var queues []string
			for i := 0; i < sh[0]; i++ {
				queues = append(queues, "window")
			}
			for i := 0; i < sh[1]; i++ {
				queues = append(queues, "probation")
			}
			for i := 0; i < sh[2]; i++ {
				queues = append(queues, "protected")
			}
			gen = func(pos int, cur []otter.VerifEvictNode) {
				if pos == len(queues) {
					layouts = append(layouts, append([]otter.VerifEvictNode(nil), cur...))
					return
				}
				for _, w := range weights {
					for _, f := range freqs {
						gen(pos+1, append(cur, otter.VerifEvictNode{Key: pos + 1, Weight: w, Freq: f, Queue: queues[pos]}))
					}
				}
			}
			gen(0, nil)
		}
		for li, nodes := range layouts {
			if job.Shards > 1 && li%job.Shards != job.Shard {
				continue
			}
			if time.Now().After(deadline) {
				timedOut = true
				return
			}
			// variants: no interference, or a main-space resident is retired (a concurrent Invalidate: the node stays
			// linked, dead, until its delete event is applied) right after the first / second eviction of the pass
			type variant struct{ key, after int }
			variants := []variant{{-1, 0}}
			for _, n := range nodes {
				if n.Queue != "window" {
					variants = append(variants, variant{n.Key, 1}, variant{n.Key, 2})
				}
			}
			for _, newMax := range []uint64{1, 2, 3, 5, 8} {
			for _, vr := range variants {
				vr := vr
				vdet.Reset()
				// every key in its own sketch block so that estimates are independent
				vdet.HashFn = func(seed uint64, key any) uint64 { return uint64(key.(int)+1) * 0x9e3779b97f4a7c15 }
				ev, fr, surv, ok := otter.VerifEvictLayoutRetire(100, newMax, nodes, vr.key, vr.after)
				if !ok {
					res.Counters["hook-unavailable"]++
					return
				}
				if vr.key >= 0 && len(ev) > vr.after {
					res.Counters["retired-mid-pass"]++
				}
				res.Executions++
				res.Steps += int64(len(ev))
				Progress.Add(1)
				ops := []string{fmt.Sprintf("layout %+v, maximum 100 -> %d, key %d retired after eviction %d (-1: none): evicted %+v, survivors %v", nodes, newMax, vr.key, vr.after, ev, surv)}
				origin := map[int]bool{}
				weight := map[int]uint32{}
				for _, n := range nodes {
					origin[n.Key] = n.Queue == "window"
					weight[n.Key] = n.Weight
				}
				// undecided window-origin entries that can take part in a comparison
				var u0 []int
				for _, n := range nodes {
					if origin[n.Key] && n.Weight > 0 {
						u0 = append(u0, n.Key)
					}
				}
				var search func(i int, u []int) bool
				search = func(i int, u []int) bool {
					if i == len(ev) {
						return true
					}
					k := ev[i].Key
					if vr.key >= 0 && i >= vr.after && k == vr.key {
						return search(i+1, u) // a retired (dead) node is evicted without an admission decision
					}
					without := func(x int) []int {
						var out []int
						for _, y := range u {
							if y != x {
								out = append(out, y)
							}
						}
						return out
					}
					if origin[k] {
						return search(i+1, without(k))
					}
					if len(u) == 0 {
						return search(i+1, u)
					}
					for _, c := range u {
						if fr[c] > fr[k] && search(i+1, without(c)) {
							return true
						}
					}
					return false
				}
				if len(ev) > 0 {
					res.Counters["evictions-judged"]++
				}
				if !search(0, u0) {
					fail("displaced-without-higher-estimate", "evictNodes", ops, "no assignment of winners explains the evictions: a main-space resident was displaced while a window-origin entry with a lower or equal estimate was still undecided (estimates %v)", fr)
				}
				// the bound itself and the zero-weight rule are C04's; here only the admission order is judged
				states[fmt.Sprint(nodes, newMax, vr)] = struct{}{}
			}
			}
		}
	case "admit":
		// every (candidate, victim) estimate pair and a set of random answers
		rands := []uint32{0, 1, 127, 128, 255, 256, 0x7fffffff, 0xffffff80, 0xffffffff}
		for cf := 0; cf <= 16; cf++ {
			for vf := 0; vf <= 16; vf++ {
				if job.Shards > 1 && (cf*17+vf)%job.Shards != job.Shard {
					continue
				}
				for _, rv := range rands {
					res.Executions++
					Progress.Add(1)
					vdet.Reset()
					// two keys in different blocks so that their estimates are independent
					vdet.HashFn = func(seed uint64, key any) uint64 { return uint64(key.(int)+1) * 0x9e3779b97f4a7c15 }
					pol := otter.VerifNewPolicy(64)
					for i := 0; i < cf; i++ {
						pol.Increment(1)
					}
					for i := 0; i < vf; i++ {
						pol.Increment(2)
					}
					c, v := pol.Frequency(1), pol.Frequency(2)
					ops := []string{fmt.Sprintf("candidate recorded %d times (estimate %d), victim recorded %d times (estimate %d), rand=%#x", cf, c, vf, v, rv)}
					want := c > v || (c >= 6 && rv&127 == 0)
					got := pol.Admit(1, 2, rv)
					states[fmt.Sprint(c, v, rv&127 == 0)] = struct{}{}
					if got != want {
						kind := "admitted-without-higher-estimate"
						if !got {
							kind = "rejected-with-higher-estimate"
						}
						fail(kind, "admit", ops, "admit(candidate estimate %d, victim estimate %d, rand&127==0:%v) = %v, expected %v", c, v, rv&127 == 0, got, want)
					}
				}
			}
		}
	}
}
