package harness

import "encoding/json"

func js(v any) json.RawMessage {
	b, err := json.Marshal(v)
	if err != nil {
		panic(err)
	}
	return b
}

// Plan returns the jobs of a property for a tier.
func Plan(property, tier string) []*Job {
	f := plans[property]
	if f == nil {
		return nil
	}
	jobs := f(tier == "thorough")
	for _, j := range jobs {
		j.Property = property
		if j.Variant == "" {
			j.Variant = "native"
		}
		if j.Shards == 0 {
			j.Shards = 1
		}
	}
	return jobs
}

var plans = map[string]func(thorough bool) []*Job{}
