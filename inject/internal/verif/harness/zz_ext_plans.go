package harness

import "fmt"

// This file sorts last so that its init runs after the sequential plans are registered.
func init() {
	// ---- E2 parts of C13, C20, C11: appended to the sequential plans ----
	seq13 := plans["C13"]
	plans["C13"] = func(thorough bool) []*Job {
		jobs := seq13(thorough)
		pb, budget := 2, 60
		if thorough {
			pb, budget = 3, 600
		}
		post := []string{fmt.Sprintf("adv %d", 3*tickNs+1), "cleanup"}
		for _, ex := range []string{"caller", "default"} {
			cfg := CacheCfg{Expiry: "writing", TTL: 10, ClockStart: 1 << 40, Executor: ex}
			mk := func(label string, setup []string, threads [][]string) {
				p := concParams{Label: label + "/" + ex, Cfg: cfg, Setup: setup, Threads: threads, Oracles: []string{"swept"}, Post: post}
				jobs = append(jobs, &Job{Scenario: "cache.conc", Params: js(p), PB: pb, Shards: 8, BudgetS: budget, Need: []string{"swept-checked"}})
			}
			adv := fmt.Sprintf("adv %d", 5*tickNs)
			mk("Set‖Advance;CleanUp", nil, [][]string{{"set 1"}, {adv, "cleanup"}})
			mk("Set‖Advance;CleanUp‖Get", []string{"set 2"}, [][]string{{"set 1"}, {adv, "cleanup"}, {"get 2"}})
			mk("update‖Advance;CleanUp", []string{"set 1"}, [][]string{{"set 1"}, {adv, "cleanup"}})
			mk("SetExpiresAfter‖Advance;CleanUp", []string{"set 1"}, [][]string{{"sea 1 20"}, {adv, "cleanup"}})
		}
		// a late reader / SetIfAbsent (older clock sample, access-based expiry) extends the deadline after the wheel has
		// selected the entry: whatever the sweep decides, a later CleanUp past the new deadline must find nothing left
		for _, late := range []string{"get 1", "sia 1"} {
			big := CacheCfg{Expiry: "accessing", TTL: 10 * tickNs, Executor: "caller", ClockStart: 1 << 40}
			p := concParams{Label: "late " + late + "‖sweep", Cfg: big, Setup: []string{"set 1", "set 2", fmt.Sprintf("adv %d", 10*tickNs-10)},
				Threads: [][]string{{late}, {fmt.Sprintf("adv %d", 2*tickNs), "cleanup"}}, Oracles: []string{"swept"},
				Post: []string{fmt.Sprintf("adv %d", 30*tickNs), "cleanup"}}
			jobs = append(jobs, &Job{Scenario: "cache.conc", Params: js(p), PB: pb, Shards: 8, BudgetS: budget, Need: []string{"swept-checked"}})
		}
		return jobs
	}
	seq20 := plans["C20"]
	plans["C20"] = func(thorough bool) []*Job {
		jobs := seq20(thorough)
		pb, budget := 2, 60
		if thorough {
			pb, budget = 3, 600
		}
		for _, ex := range []string{"caller"} {
			mk := func(label string, cfg CacheCfg, setup []string, threads [][]string) {
				cfg.Stats = true
				cfg.Executor = ex
				jobs = append(jobs, concJob(label, cfg, setup, threads, []string{"stats"}, "native", pb, false, 8, budget))
			}
			mk("Get‖Get‖Set", CacheCfg{}, []string{"set 1"}, [][]string{{"get 1"}, {"get 1"}, {"set 1"}})
			mk("Get‖Get‖Invalidate", CacheCfg{}, []string{"set 1"}, [][]string{{"get 1", "get 2"}, {"get 1"}, {"inv 1"}})
			mk("load‖load", CacheCfg{}, nil, [][]string{{"load 1 val"}, {"load 1 err"}})
			mk("ComputeIfAbsent‖Invalidate", CacheCfg{}, []string{"set 1"}, [][]string{{"cia 1"}, {"inv 1"}})
			mk("Compute‖Compute", CacheCfg{}, []string{"set 1"}, [][]string{{"cw 1", "get 1"}, {"ci 1", "get 1"}})
			// two-phase operations whose second phase finds a different state than the first: still one lookup each
			mk("ComputeIfAbsent‖Set(absent)", CacheCfg{}, nil, [][]string{{"cia 1"}, {"set 1"}})
			mk("ComputeIfAbsent‖ComputeIfAbsent", CacheCfg{}, nil, [][]string{{"cia 1"}, {"cia 1"}})
			mk("ComputeIfPresent‖Invalidate", CacheCfg{}, []string{"set 1"}, [][]string{{"cipw 1"}, {"inv 1"}})
			mk("ComputeIfPresent‖Set", CacheCfg{}, []string{"set 1"}, [][]string{{"cipc 1"}, {"set 1"}})
			mk("Get(load)‖Set", CacheCfg{}, nil, [][]string{{"load 1 val"}, {"set 1"}})
			mk("BulkGet‖Set", CacheCfg{}, []string{"set 2"}, [][]string{{"bulk 1,2,1 full"}, {"set 1"}})
			// a BulkGet whose missing keys are all being loaded by someone else invokes no loader (and records no load)
			mk("Get‖BulkGet(all joined)", CacheCfg{}, nil, [][]string{{"load 1 val"}, {"bulk 1 full"}})
			mk("Get‖BulkGet(one joined)", CacheCfg{}, []string{"set 3"}, [][]string{{"load 1 val"}, {"bulk 1,3 full"}})
			mk("Set‖Set(evicting)", CacheCfg{MaxSize: 1}, []string{"set 1"}, [][]string{{"set 2", "get 1"}, {"set 3", "get 2"}})
			// the eviction policy meets a node that was already replaced or removed: it must not be counted as an eviction
			mk("update‖insert-evict", CacheCfg{MaxSize: 2}, []string{"set 1", "set 2"}, [][]string{{"set 1"}, {"set 3"}})
			mk("invalidate‖insert-evict", CacheCfg{MaxSize: 2}, []string{"set 1", "set 2"}, [][]string{{"inv 1"}, {"set 3"}})
			mk("update‖setmax", CacheCfg{MaxWeight: 4}, []string{"set 1 2", "set 2 1"}, [][]string{{"set 1 1"}, {"setmax 1"}})
			mk("update‖expire", CacheCfg{Expiry: "writing", TTL: 10, ClockStart: 1 << 40}, []string{"set 1", "set 2"}, [][]string{{"set 1"}, {"adv 5000000000", "cleanup"}})
			// a late reader (oldest clock sample) moves the deadline back while a Compute that found the entry alive is in
			// its callback: the lookup stays a hit
			mk("lateReader‖extend;Compute", CacheCfg{Expiry: "accessing", TTL: 100, ClockStart: 1 << 40}, []string{"set 1", "adv 60"},
				[][]string{{"get 1"}, {"adv 30", "get 1", "adv 80", "cw 1"}})
			// systematic matrix: every counting operation against every kind of writer on a bounded cache (nodes get retired)
			for _, rd := range []string{"get 1", "gete 1", "load 1 val", "cw 1", "cc 1", "cia 1", "cipw 1", "bulk 1,2 full"} {
				for _, wr := range []string{"set 1", "inv 1", "set 3", "invall"} {
					mk("matrix:"+rd+"‖"+wr, CacheCfg{MaxSize: 2}, []string{"set 1", "set 2"}, [][]string{{rd}, {wr}})
				}
			}
		}
		return jobs
	}
	seq11 := plans["C11"]
	plans["C11"] = func(thorough bool) []*Job {
		jobs := seq11(thorough)
		for _, ex := range []string{"default", "caller"} {
			cfg := CacheCfg{Refresh: "writing", RefreshTTL: 40, ClockStart: 1 << 40, Executor: ex}
			for _, o := range []string{"val", "err", "nf"} {
				var need []string
				if ex == "default" {
					need = []string{"reads-during-reload"}
				}
				jobs = append(jobs, concJob("staleGet("+o+")‖readers/"+ex, cfg, []string{"set 1", "adv 50"}, [][]string{{"load 1 " + o}, {"get 1", "get 1"}}, []string{"refresh-readers", "audit"}, "native", 12, true, 4, 60, need...))
				// a second loader-backed Get while the reload is being swapped in (fine-grained: the window is inside the install)
				if o == "val" {
					jobs = append(jobs, concJob("staleGet‖Get(fine)/"+ex, cfg, []string{"set 1", "adv 50"}, [][]string{{"load 1 val"}, {"load 1 val", "load 1 val"}}, []string{"refresh-readers", "audit"}, "native", 1, false, 8, 60))
				}
				// an explicit Refresh that joins the reload started by a stale read (or another Refresh, or a loading Get)
				jobs = append(jobs, concJob("staleGet("+o+")‖Refresh/"+ex, cfg, []string{"set 1", "adv 50"}, [][]string{{"load 1 " + o}, {"refresh 1 val"}}, []string{"refresh-results", "refresh-readers", "audit"}, "native", 12, true, 4, 60, "refresh-results"))
				jobs = append(jobs, concJob("Refresh("+o+")‖Refresh/"+ex, cfg, []string{"set 1"}, [][]string{{"refresh 1 " + o}, {"refresh 1 val"}}, []string{"refresh-results", "audit"}, "native", 12, true, 4, 60, "refresh-results"))
				jobs = append(jobs, concJob("missGet("+o+")‖Refresh/"+ex, cfg, nil, [][]string{{"load 1 " + o}, {"refresh 1 val"}}, []string{"refresh-results", "audit"}, "native", 12, true, 4, 60, "refresh-results"))
				// a bulk refresh that meets the reload another call is running (it must not disturb that call's result)
				if o == "val" {
					for _, second := range []string{"bulkrefresh 1,2 full", "bulkrefresh 1 full"} {
						jobs = append(jobs, concJob("Refresh‖"+second+"/"+ex, cfg, []string{"set 1", "set 2"}, [][]string{{"refresh 1 val"}, {second}}, []string{"refresh-results", "audit"}, "native", 2, false, 8, 60, "refresh-results"))
					}
					jobs = append(jobs, concJob("staleGet‖staleBulkGet/"+ex, cfg, []string{"set 1", "set 2", "adv 50"}, [][]string{{"load 1 val"}, {"bulk 1,2 full"}}, []string{"refresh-results", "refresh-readers", "audit"}, "native", 2, false, 8, 60))
				}
				// SetRefreshableAfter while the reload is in flight is not lost (whatever the reload's outcome)
				for _, rf := range []string{"writing", "creating"} {
					if o == "nf" {
						continue // the entry is removed: nothing left to compare
					}
					if o == "val" && rf == "creating" {
						continue // only the not-judged outcome (see checkDeadlineSetters)
					}
					scfg := cfg
					scfg.Refresh = rf
					jobs = append(jobs, concJob("staleGet("+o+")‖sra/"+rf+"/"+ex, scfg, []string{"set 1", "adv 50"}, [][]string{{"load 1 " + o}, {"sra 1 1000"}}, []string{"deadline-setters", "audit"}, "native", 2, false, 4, 60, "setters-during-flight"))
					jobs = append(jobs, concJob("Refresh("+o+")‖sra/"+rf+"/"+ex, scfg, []string{"set 1"}, [][]string{{"refresh 1 " + o}, {"sra 1 1000"}}, []string{"deadline-setters", "audit"}, "native", 2, false, 4, 60, "setters-during-flight"))
				}
			}
		}
		return jobs
	}

	// ---- C06 sequential part: the event ledger along every operation sequence ----
	conc06 := plans["C06"]
	plans["C06"] = func(thorough bool) []*Job {
		jobs := conc06(thorough)
		kinds := []string{"event-missing", "event-duplicate", "wrong-cause", "event-for-unknown-value", "unexpected-removal"}
		for _, cfg := range []CacheCfg{
			{}, // no maintenance: the fast notification path
			{MaxSize: 2},
			{MaxWeight: 4},
			{Expiry: "writing", TTL: 100, ClockStart: 1 << 40},
			{MaxSize: 2, Expiry: "accessing", TTL: 100, Refresh: "writing", RefreshTTL: 40, ClockStart: 1 << 40},
			{MaxSize: 2, Expiry: "writing", TTL: 100, Executor: "deferred", ClockStart: 1 << 40},
		} {
			depth, budget := 3, 60
			if thorough {
				depth, budget = 4, 600
			}
			a := baseAlphabet([]int{1, 2, 3}, cfg, true)
			jobs = append(jobs, seqJob(seqParams{Cfg: cfg, Alphabet: a, Kinds: kinds}, depth, 4, budget))
		}
		// a table that holds expired-but-unswept and live entries side by side when InvalidateAll (or anything else) runs
		for _, cfg := range []CacheCfg{
			{Expiry: "writing", TTL: 100, ClockStart: 1 << 40},
			{MaxSize: 8, Expiry: "writing", TTL: 100, ClockStart: 1 << 40},
		} {
			var pre [][]string
			for _, order := range [][]int{{1, 2, 3, 4}, {4, 3, 2, 1}, {2, 4, 1, 3}} {
				// the first two keys of the order expire (deadline 100 < clock 110), the last two stay live (deadline 160)
				pre = append(pre, []string{fmt.Sprintf("set %d", order[0]), fmt.Sprintf("set %d", order[1]), "adv 60", fmt.Sprintf("set %d", order[2]), fmt.Sprintf("set %d", order[3]), "adv 50"})
			}
			a := []string{"invall", "inv 1", "inv 4", "set 1", "set 4", "cleanup", "get 2", "cw 3", "adv 60"}
			jobs = append(jobs, seqJob(seqParams{Cfg: cfg, Alphabet: a, Kinds: kinds, Prefixes: pre}, 2, 2, 60))
		}
		return jobs
	}

	// ---- C15 cache level: All/Keys under concurrent writes, also while the table grows ----
	tab15 := plans["C15"]
	plans["C15"] = func(thorough bool) []*Job {
		jobs := tab15(thorough)
		pb, budget := 2, 60
		if thorough {
			pb, budget = 3, 600
		}
		or := []string{"iter", "lin"}
		jobs = append(jobs, concJob("All‖writers", CacheCfg{Collide: true}, []string{"set 1", "set 2", "set 3"}, [][]string{{"all"}, {"inv 1", "set 4"}, {"set 2"}}, or, "native", pb, false, 8, budget, "iterations-checked"))
		jobs = append(jobs, concJob("Keys‖delete-reinsert", CacheCfg{Collide: true}, []string{"set 0", "set 1", "set 2", "set 3", "set 4"}, [][]string{{"keys"}, {"inv 0", "set 5", "set 0"}}, or, "native", pb, false, 8, budget, "iterations-checked"))
		spread := []uint64{hsh(0, 1), hsh(2, 2), hsh(4, 3), hsh(6, 4), hsh(0, 5), hsh(2, 6), hsh(1, 7), hsh(3, 8), hsh(1, 9), hsh(3, 10), hsh(5, 11)}
		fill8 := []string{"set 0", "set 1", "set 2", "set 3", "set 4", "set 6", "set 7", "set 8"}
		jobs = append(jobs, concJob("All‖grow", CacheCfg{Hashes: spread, InitCap: 1}, fill8, [][]string{{"all"}, {"set 5", "inv 1"}}, or, "small", pb, false, 8, budget, "iterations-checked", "table-grew"))
		// every iterator after every short history, with maintenance still queued in the executor (a key whose write has
		// returned is present for the whole iteration)
		for _, cfg := range []CacheCfg{{MaxSize: 3, Executor: "deferred"}, {MaxWeight: 6, Executor: "deferred"}, {MaxSize: 3, Expiry: "writing", TTL: 100, Executor: "deferred", ClockStart: 1 << 40}} {
			a := []string{"set 1", "set 2", "set 3", "set 4", "inv 1", "get 2", "all", "keys", "values", "coldest", "hottest", "runexec", "cleanup"}
			if cfg.Expiry != "" {
				a = append(a, "adv 100")
			}
			depth := 4
			if thorough {
				depth = 5
			}
			jobs = append(jobs, seqJob(seqParams{Cfg: cfg, Alphabet: a, Kinds: []string{"result-mismatch", "iteration-duplicate", "expired-observed"}}, depth, 4, 60))
		}
		return jobs
	}

	// ---- C08 sequential part: no in-flight record survives any loading call, whatever the loader does ----
	conc08 := plans["C08"]
	plans["C08"] = func(thorough bool) []*Job {
		jobs := conc08(thorough)
		kinds := []string{"inflight-left", "loader-calls", "refresh-channel", "result-mismatch", "refresh-result-wrong"}
		for _, cfg := range []CacheCfg{
			{Refresh: "writing", RefreshTTL: 40, ClockStart: 1 << 40},
			{MaxSize: 3, Expiry: "writing", TTL: 100, Refresh: "creating", RefreshTTL: 40, ClockStart: 1 << 40},
		} {
			var a []string
			for _, o := range []string{"val", "err", "nf", "panic", "valerr"} {
				a = append(a, "load 1 "+o, "refresh 1 "+o, "refresh 2 "+o)
			}
			for _, sh := range []string{"full", "partial", "extra", "empty", "err", "nf", "panic"} {
				a = append(a, "bulk 1,2 "+sh, "bulkrefresh 1,2 "+sh, "bulkrefresh 2,3 "+sh)
			}
			a = append(a, "set 1", "set 2", "inv 1", "adv 50", "adv 100")
			depth := 3
			if thorough {
				depth = 4
			}
			jobs = append(jobs, seqJob(seqParams{Cfg: cfg, Alphabet: a, Kinds: kinds}, depth, 4, 120))
		}
		return jobs
	}
}
