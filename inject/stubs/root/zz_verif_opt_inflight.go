//go:build verif

package otter

// Stub of the optional in-flight hook: the count is unknown.
func (c *Cache[K, V]) verifInFlight() int { return -1 }
