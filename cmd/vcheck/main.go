// Command vcheck is the driver: it instruments /repo's current working tree
// (overlay, /repo untouched), builds the worker, runs the jobs of a property
// on up to 16 worker processes, aggregates, writes evidence/<id>.json and
// prints VIOLATION / KNOWN-FINDING lines.
//
//	vcheck setup                      build + warm caches
//	vcheck C16 --tier quick|thorough  run a property check
//	vcheck C16 --replay replays/x.json
package main

import (
	"bytes"
	"encoding/json"
	"flag"
	"fmt"
	"os"
	"os/exec"
	"path/filepath"
	"regexp"
	"runtime"
	"sort"
	"strconv"
	"strings"
	"sync"
	"time"

	"verif/instrument"
)

var (
	verifDir = envOr("VERIF_DIR", "/verif")
	repoDir  = envOr("VERIF_REPO", "/repo")
	goBin    = envOr("VERIF_GO", "go1.26.8")
)

func keysOf(m map[string]bool) []string {
	var ks []string
	for k := range m {
		ks = append(ks, k)
	}
	sort.Strings(ks)
	return ks
}

func envOr(k, d string) string {
	if v := os.Getenv(k); v != "" {
		return v
	}
	return d
}

func goEnv() []string {
	env := os.Environ()
	env = append(env, "GOFLAGS=-mod=mod", "GOPROXY=off", "GOSUMDB=off", "GOTOOLCHAIN=local",
		"PATH=/opt/veriftools/go1.26.8/bin:"+os.Getenv("PATH"))
	return env
}

type job = map[string]any

type violation struct {
	Kind     string          `json:"kind"`
	Subject  string          `json:"subject"`
	Detail   string          `json:"detail"`
	Scenario string          `json:"scenario"`
	Params   json.RawMessage `json:"params,omitempty"`
	Choices  []uint8         `json:"choices,omitempty"`
	Ops      []string        `json:"ops,omitempty"`
	Cost     int             `json:"cost"`
	Obs      []string        `json:"observations,omitempty"`
	Trace    []string        `json:"trace,omitempty"`
}

type result struct {
	Job         job              `json:"job"`
	Engine      string           `json:"engine"`
	Executions  int              `json:"executions"`
	Steps       int64            `json:"steps"`
	TreeNodes   int64            `json:"tree_nodes"`
	States      int64            `json:"states"`
	ByCost      map[string]int   `json:"by_cost"`
	BoundDone   int              `json:"bound_done"`
	Exhaustive  bool             `json:"exhaustive"`
	Capped      string           `json:"capped"`
	ObsHashes   []uint64         `json:"obs_hashes"`
	Counters    map[string]int   `json:"counters"`
	Stuck       int              `json:"stuck"`
	StuckSample string           `json:"stuck_sample"`
	Violations  []violation      `json:"violations"`
	ViolCount   map[string]int   `json:"violation_counts"`
	Samples     []map[string]any `json:"samples"`
	Infra       string           `json:"infra"`
	WallS       float64          `json:"wall_s"`
	MaxPoints   int              `json:"max_points"`
}

type finding struct {
	Property  string `json:"property"`
	Signature string `json:"signature"`
	Status    string `json:"status"` // known | fixed
	Commit    string `json:"commit,omitempty"`
	What      string `json:"what"`
}

func fatalInfra(format string, args ...any) {
	fmt.Printf("INFRA-ERROR "+format+"\n", args...)
	os.Exit(2)
}

// prepare returns the worker binary for the current /repo tree and variant,
// building it (instrument + go build) unless a binary for exactly this tree
// content is cached.
func prepare(variant string, race bool) (string, *instrument.Result) {
	inject := filepath.Join(verifDir, "inject")
	h, err := instrument.TreeHash(repoDir, inject)
	if err != nil {
		fatalInfra("hashing tree: %v", err)
	}
	name := variant
	if race {
		name += "-race"
	}
	dir := filepath.Join(verifDir, ".cache", h+"-"+name)
	bin := filepath.Join(dir, "worker")
	meta := filepath.Join(dir, "instrument.json")
	if _, err := os.Stat(bin); err == nil {
		var r instrument.Result
		if b, err := os.ReadFile(meta); err == nil {
			json.Unmarshal(b, &r)
		}
		return bin, &r
	}
	// evict old cache entries (disk is limited)
	if ents, err := os.ReadDir(filepath.Join(verifDir, ".cache")); err == nil && len(ents) > 12 {
		type ent struct {
			p string
			t time.Time
		}
		var es []ent
		for _, e := range ents {
			if e.Name() == "gocache" {
				continue
			}
			if fi, err := e.Info(); err == nil {
				es = append(es, ent{filepath.Join(verifDir, ".cache", e.Name()), fi.ModTime()})
			}
		}
		sort.Slice(es, func(i, j int) bool { return es[i].t.Before(es[j].t) })
		for i := 0; i+8 < len(es); i++ {
			os.RemoveAll(es[i].p)
		}
	}
	tmp := dir + ".tmp" + strconv.Itoa(os.Getpid())
	os.RemoveAll(tmp)
	v, ok := instrument.Variants[variant]
	if !ok {
		fatalInfra("unknown variant %s", variant)
	}
	// optional hooks (inject/pkg/**/zz_verif_opt_*.go) rely on private names of otter; if a changed tree no longer has
	// them, the hook is replaced by its stub (inject/stubs) and the build is retried: the checks then run without that
	// piece of introspection instead of failing as an infrastructure error
	stubs := map[string]bool{}
	optRe := regexp.MustCompile(`zz_verif_opt_[a-z0-9_]+\.go`)
	var r *instrument.Result
	for attempt := 0; ; attempt++ {
		os.RemoveAll(tmp)
		var err error
		r, err = instrument.Generate(repoDir, inject, tmp, v, stubs)
		if err != nil {
			os.RemoveAll(tmp)
			fatalInfra("instrumenting %s: %v", repoDir, err)
		}
		args := []string{"build", "-tags", "verif", "-overlay", r.OverlayPath, "-o", filepath.Join(tmp, "worker")}
		if race {
			args = append(args, "-race")
		}
		args = append(args, "./internal/verif/worker")
		cmd := exec.Command(goBin, args...)
		cmd.Dir = repoDir
		cmd.Env = goEnv()
		var out bytes.Buffer
		cmd.Stdout = &out
		cmd.Stderr = &out
		err = cmd.Run()
		if err == nil {
			break
		}
		added := false
		for _, name := range optRe.FindAllString(out.String(), -1) {
			if !stubs[name] {
				stubs[name], added = true, true
			}
		}
		if !added || attempt >= 3 {
			os.RemoveAll(tmp)
			fatalInfra("building instrumented worker (%s): %v\n%s", name, err, out.String())
		}
		fmt.Fprintf(os.Stderr, "note: optional hooks no longer compile against this tree and are replaced by stubs: %v\n", keysOf(stubs))
	}
	b, _ := json.Marshal(r)
	os.WriteFile(filepath.Join(tmp, "instrument.json"), b, 0o644)
	// overlay paths point into tmp; fix them up by rewriting after rename is not needed: the binary is self-contained.
	os.RemoveAll(dir)
	if err := os.Rename(tmp, dir); err != nil {
		// another process won the race
		os.RemoveAll(tmp)
	}
	return bin, r
}

func planFor(bin, property, tier string) []job {
	cmd := exec.Command(bin, "-list", property, "-tier", tier)
	out, err := cmd.Output()
	if err != nil {
		fatalInfra("listing plan: %v", err)
	}
	var jobs []job
	if err := json.Unmarshal(out, &jobs); err != nil {
		fatalInfra("bad plan: %v: %s", err, out)
	}
	return jobs
}

func runWorker(bin string, j job, timeout time.Duration) (*result, error) {
	r, _, err := runWorkerProcs(bin, j, timeout, 1)
	return r, err
}

func runWorkerProcs(bin string, j job, timeout time.Duration, procs int) (*result, string, error) {
	r, se, err := runWorkerRaw(bin, j, timeout, procs)
	return r, se, err
}

func runWorkerRaw(bin string, j job, timeout time.Duration, procs int) (*result, string, error) {
	b, _ := json.Marshal(j)
	limit := "ulimit -v 12000000; "
	if procs > 1 {
		limit = "" // the race detector reserves a huge virtual address range
	}
	// the job goes in on stdin (jobs that start from long prefixes exceed the argument size limit)
	cmd := exec.Command("bash", "-c", limit+"exec \"$0\" -procs \"$1\"", bin, strconv.Itoa(procs))
	cmd.Stdin = bytes.NewReader(b)
	cmd.Env = append(os.Environ(), "GOMAXPROCS="+strconv.Itoa(procs), "GORACE=halt_on_error=0")
	var stdout, stderr bytes.Buffer
	cmd.Stdout = &stdout
	cmd.Stderr = &stderr
	if err := cmd.Start(); err != nil {
		return nil, "", err
	}
	done := make(chan error, 1)
	go func() { done <- cmd.Wait() }()
	select {
	case err := <-done:
		if err != nil {
			tail := stderr.String()
			if len(tail) > 6000 {
				tail = tail[:3000] + "\n...\n" + tail[len(tail)-3000:]
			}
			if procs > 1 && strings.Contains(stderr.String(), "WARNING: DATA RACE") {
				// the race detector makes the process exit non-zero; the report is what matters
				return &result{Job: j, Engine: "race-pass"}, stderr.String(), nil
			}
			if v := crashViolation(stderr.String(), j); v != nil {
				return &result{Job: j, Engine: "crash", Violations: []violation{*v}, ViolCount: map[string]int{v.Kind + "/" + v.Subject: 1}}, "", nil
			}
			return nil, "", fmt.Errorf("worker failed: %v\n%s", err, tail)
		}
	case <-time.After(timeout):
		cmd.Process.Kill()
		<-done
		return nil, "", fmt.Errorf("worker exceeded hard timeout %v", timeout)
	}
	var r result
	lines := strings.Split(strings.TrimSpace(stdout.String()), "\n")
	if err := json.Unmarshal([]byte(lines[len(lines)-1]), &r); err != nil {
		return nil, "", fmt.Errorf("bad worker output: %v: %.300s", err, stdout.String())
	}
	return &r, stderr.String(), nil
}

// crashViolation: an unrecoverable runtime failure (fatal error, unrecovered panic) whose stack
// passes through otter's own code is a defect of the code under check, not of the harness.
func crashViolation(stderr string, j job) *violation {
	if !strings.Contains(stderr, "fatal error:") && !strings.Contains(stderr, "panic:") {
		return nil
	}
	if strings.Contains(stderr, "out of memory") || strings.Contains(stderr, "cannot allocate memory") {
		return nil
	}
	lines := strings.Split(stderr, "\n")
	subject := ""
	for _, l := range lines {
		if strings.HasPrefix(l, "github.com/maypok86/otter/v2") && !strings.Contains(l, "/internal/verif/") {
			fn := l
			if i := strings.Index(fn, "("); i > 0 {
				fn = fn[:i]
			}
			fn = strings.TrimPrefix(fn, "github.com/maypok86/otter/v2")
			fn = strings.NewReplacer("[...]", "", "(*", "", ")", "").Replace(fn)
			subject = strings.Trim(fn, "/.")
			break
		}
	}
	if subject == "" {
		return nil
	}
	head := ""
	for _, l := range lines {
		if strings.HasPrefix(l, "fatal error:") || strings.HasPrefix(l, "panic:") {
			head = l
			break
		}
	}
	tail := stderr
	if len(tail) > 3000 {
		tail = tail[:3000]
	}
	sc, _ := j["scenario"].(string)
	raw, _ := json.Marshal(j["params"])
	return &violation{Kind: "crash", Subject: subject, Detail: "the worker process died inside the code under check: " + head + "\n" + tail, Scenario: sc, Params: raw}
}

func loadFindings() []finding {
	var fs []finding
	b, err := os.ReadFile(filepath.Join(verifDir, "known_findings.json"))
	if err != nil {
		return nil
	}
	if err := json.Unmarshal(b, &fs); err != nil {
		fatalInfra("known_findings.json: %v", err)
	}
	return fs
}

func main() {
	// go/packages and go build must find go1.26.8 as "go" (the default go is too old for /repo's go.mod)
	os.Setenv("PATH", "/opt/veriftools/go1.26.8/bin:"+os.Getenv("PATH"))
	os.Setenv("GOFLAGS", "-mod=mod")
	os.Setenv("GOPROXY", "off")
	os.Setenv("GOSUMDB", "off")
	os.Setenv("GOTOOLCHAIN", "local")
	if len(os.Args) < 2 {
		fmt.Println("usage: vcheck setup | vcheck <Cxx> [--tier quick|thorough] [--replay file]")
		os.Exit(2)
	}
	sub := os.Args[1]
	fs := flag.NewFlagSet("vcheck", flag.ExitOnError)
	tier := fs.String("tier", envOr("VERIF_TIER", "quick"), "quick|thorough")
	replayPath := fs.String("replay", "", "replay a recorded violation")
	nproc := fs.Int("procs", runtime.NumCPU(), "worker processes")
	only := fs.String("only", "", "only scenarios containing this substring")
	fs.Parse(os.Args[2:])
	if *nproc > 16 {
		*nproc = 16
	}
	seed := 0
	if s := os.Getenv("VERIF_SEED"); s != "" {
		seed, _ = strconv.Atoi(s)
	}

	if sub == "setup" {
		var wg sync.WaitGroup
		for _, v := range []string{"native", "small"} {
			wg.Add(1)
			go func(v string) { defer wg.Done(); prepare(v, false) }(v)
		}
		wg.Wait()
		fmt.Println("setup ok")
		return
	}
	property := sub
	start := time.Now()

	if *replayPath != "" {
		b, err := os.ReadFile(*replayPath)
		if err != nil {
			fatalInfra("reading replay: %v", err)
		}
		var rp struct {
			Property  string    `json:"property"`
			Job       job       `json:"job"`
			Violation violation `json:"violation"`
		}
		if err := json.Unmarshal(b, &rp); err != nil {
			fatalInfra("bad replay file: %v", err)
		}
		variant, _ := rp.Job["variant"].(string)
		if variant == "" {
			variant = "native"
		}
		bin, _ := prepare(variant, false)
		j := rp.Job
		j["replay"] = rp.Violation
		j["shards"] = 1
		j["shard"] = 0
		r, err := runWorker(bin, j, 10*time.Minute)
		if err != nil {
			fatalInfra("%v", err)
		}
		if r.Infra != "" {
			fatalInfra("%s", r.Infra)
		}
		if len(r.Violations) == 0 {
			fmt.Println("replay: no discrepancy on this tree")
			for _, s := range r.Samples {
				b, _ := json.MarshalIndent(s, "", " ")
				fmt.Println(string(b))
			}
			return
		}
		for _, v := range r.Violations {
			fmt.Printf("replay: %s/%s/%s: %s\n", property, v.Kind, v.Subject, v.Detail)
			for _, o := range v.Obs {
				fmt.Println("  obs:", o)
			}
			for _, t := range v.Trace {
				fmt.Println("  ", t)
			}
		}
		fmt.Printf("VIOLATION property=%s replay=%s\n", property, *replayPath)
		os.Exit(1)
	}

	// plan: ask the native worker (the catalog is the same in every variant)
	binNative, instr := prepare("native", false)
	jobs := planFor(binNative, property, *tier)
	if len(jobs) == 0 {
		fatalInfra("no jobs planned for %s", property)
	}
	if *only != "" {
		var kept []job
		for _, j := range jobs {
			b, _ := json.Marshal(j)
			if strings.Contains(string(b), *only) {
				kept = append(kept, j)
			}
		}
		jobs = kept
	}
	bins := map[string]string{"native": binNative}
	instrs := map[string]*instrument.Result{"native": instr}
	type task struct {
		j   job
		bin string
		idx int
	}
	var tasks []task
	for ji, j := range jobs {
		variant, _ := j["variant"].(string)
		if _, ok := bins[variant]; !ok {
			bins[variant], instrs[variant] = prepare(variant, false)
		}
		shards := int(j["shards"].(float64))
		if shards > *nproc {
			shards = *nproc
			j["shards"] = float64(shards)
		}
		for s := 0; s < shards; s++ {
			jj := job{}
			for k, v := range j {
				jj[k] = v
			}
			jj["shard"] = s
			tasks = append(tasks, task{jj, bins[variant], ji})
		}
	}
	// rotate the task order with the seed (affects only scheduling of work, not coverage)
	if seed != 0 && len(tasks) > 1 {
		k := seed % len(tasks)
		if k < 0 {
			k = -k
		}
		tasks = append(tasks[k:], tasks[:k]...)
	}
	results := make([][]*result, len(jobs))
	var mu sync.Mutex
	var infra []string
	sem := make(chan struct{}, *nproc)
	var wg sync.WaitGroup
	for _, t := range tasks {
		wg.Add(1)
		sem <- struct{}{}
		go func(t task) {
			defer wg.Done()
			defer func() { <-sem }()
			budget := 60.0
			if b, ok := t.j["budget_s"].(float64); ok && b > 0 {
				budget = b
			}
			r, err := runWorker(t.bin, t.j, time.Duration(budget*2+120)*time.Second)
			mu.Lock()
			defer mu.Unlock()
			if err != nil {
				infra = append(infra, fmt.Sprintf("%v (scenario %v)", err, t.j["scenario"]))
				return
			}
			if r.Infra != "" {
				infra = append(infra, fmt.Sprintf("%s (scenario %v)", r.Infra, t.j["scenario"]))
			}
			results[t.idx] = append(results[t.idx], r)
		}(t)
	}
	wg.Wait()

	// side condition (thorough tier): the same scenario bodies free-running under the race detector.
	// Sampling, never a verdict: a report is printed as ASSUMPTION-FAILED and recorded in the evidence.
	racePass := map[string]any{"enabled": false}
	var raceReports []string
	if *tier == "thorough" || os.Getenv("VERIF_RACE") == "1" {
		raceRuns, raceJobs := 0, 0
		raceBins := map[string]string{}
		var rmu sync.Mutex
		var rwg sync.WaitGroup
		rsem := make(chan struct{}, 4)
		// the pass is a sampled side condition: with thousands of matrix jobs it takes an evenly spaced sample of at
		// most raceJobCap scenario bodies (all of them when there are fewer)
		const raceJobCap = 160
		eligible := 0
		for _, j := range jobs {
			if sc, _ := j["scenario"].(string); sc == "cache.conc" || sc == "c15.hashmap" || sc == "c16.mpsc" || sc == "c17.striped" {
				eligible++
			}
		}
		stride := (eligible + raceJobCap - 1) / raceJobCap
		if stride < 1 {
			stride = 1
		}
		seen := 0
		for _, j := range jobs {
			sc, _ := j["scenario"].(string)
			if sc != "cache.conc" && sc != "c15.hashmap" && sc != "c16.mpsc" && sc != "c17.striped" {
				continue
			}
			seen++
			if (seen-1)%stride != 0 {
				continue
			}
			variant, _ := j["variant"].(string)
			if _, ok := raceBins[variant]; !ok {
				raceBins[variant], _ = prepare(variant, true)
			}
			jj := job{}
			for k, v := range j {
				jj[k] = v
			}
			jj["race"] = 200
			jj["shards"] = 1
			jj["shard"] = 0
			jj["budget_s"] = 20
			raceJobs++
			rwg.Add(1)
			rsem <- struct{}{}
			go func(jj job, bin string) {
				defer rwg.Done()
				defer func() { <-rsem }()
				r, se, err := runWorkerProcs(bin, jj, 3*time.Minute, 8)
				rmu.Lock()
				defer rmu.Unlock()
				if err != nil {
					raceReports = append(raceReports, "race pass could not run: "+oneLine(err.Error()))
					return
				}
				raceRuns += r.Executions
				if i := strings.Index(se, "WARNING: DATA RACE"); i >= 0 {
					rep := se[i:]
					if k := strings.Index(rep, "=================="); k > 0 {
						rep = rep[:k]
					}
					if len(rep) > 2500 {
						rep = rep[:2500]
					}
					raceReports = append(raceReports, fmt.Sprintf("scenario %v %v: %s", jj["scenario"], jj["params"], rep))
				}
			}(jj, raceBins[variant])
		}
		rwg.Wait()
		racePass = map[string]any{"enabled": true, "eligible_jobs": eligible, "jobs": raceJobs, "free_running_executions": raceRuns, "reports": len(raceReports)}
		seenRep := map[string]bool{}
		for _, rep := range raceReports {
			key := rep
			if i := strings.Index(rep, "WARNING"); i >= 0 {
				key = rep[i:]
			}
			if len(key) > 600 {
				key = key[:600]
			}
			if seenRep[key] {
				continue
			}
			seenRep[key] = true
			fmt.Printf("ASSUMPTION-FAILED property=%s data race (free-running side-condition pass; not a verdict): %s\n", property, rep)
		}
	}

	// aggregate
	findings := loadFindings()
	known := map[string]finding{}
	for _, f := range findings {
		if f.Property == property && f.Status == "known" {
			known[f.Signature] = f
		}
	}
	var (
		totalExec, totalStuck  int
		totalSteps, totalNodes int64
		totalStates            int64
		exhaustive             = true
		perJob                 []map[string]any
		samples                []any
		violBySig              = map[string]violation{}
		violJob                = map[string]job{}
		violCounts             = map[string]int{}
		nontrivial             int
		obsAll                 = map[uint64]struct{}{}
		counters               = map[string]int{}
		vacuity                []string
		engines                = map[string]bool{}
	)
	for ji, rs := range results {
		j := jobs[ji]
		jobExec, jobStuck := 0, 0
		var jobSteps, jobNodes, jobStates int64
		jobExh := len(rs) > 0
		byCost := map[string]int{}
		obs := map[uint64]struct{}{}
		jc := map[string]int{}
		capped := ""
		maxPts := 0
		wall := 0.0
		for _, r := range rs {
			engines[r.Engine] = true
			jobExec += r.Executions
			jobSteps += r.Steps
			jobNodes += r.TreeNodes
			jobStates += r.States
			jobStuck += r.Stuck
			if !r.Exhaustive {
				jobExh = false
				if r.Capped != "" {
					capped = r.Capped
				}
			}
			for k, v := range r.ByCost {
				byCost[k] += v
			}
			for _, h := range r.ObsHashes {
				obs[h] = struct{}{}
				obsAll[h] = struct{}{}
			}
			for k, v := range r.Counters {
				jc[k] += v
				counters[k] += v
			}
			if r.MaxPoints > maxPts {
				maxPts = r.MaxPoints
			}
			if r.WallS > wall {
				wall = r.WallS
			}
			for k, v := range r.ViolCount {
				violCounts[property+"/"+k] += v
			}
			for _, v := range r.Violations {
				sig := property + "/" + v.Kind + "/" + v.Subject
				old, ok := violBySig[sig]
				if !ok || v.Cost < old.Cost || (v.Cost == old.Cost && len(v.Choices)+len(v.Ops) < len(old.Choices)+len(old.Ops)) {
					violBySig[sig] = v
					violJob[sig] = j
				}
			}
			if len(samples) < 6 && len(r.Samples) > 0 {
				samples = append(samples, map[string]any{"scenario": j["scenario"], "params": j["params"], "case": r.Samples[0]})
			}
		}
		if len(rs) != int(j["shards"].(float64)) {
			jobExh = false
		}
		for k, v := range byCost {
			if k != "pb0_eb0" {
				nontrivial += v
			}
		}
		totalExec += jobExec
		totalSteps += jobSteps
		totalNodes += jobNodes
		totalStates += jobStates
		totalStuck += jobStuck
		if !jobExh {
			exhaustive = false
		}
		// vacuity expectations
		if need, ok := j["need"].([]any); ok && jobExh {
			for _, n := range need {
				if jc[n.(string)] == 0 {
					lbl := ""
					if pm, ok := j["params"].(map[string]any); ok {
						if l, ok := pm["label"].(string); ok {
							lbl = " [" + l + "]"
						} else if c, ok := pm["cfg"]; ok {
							b, _ := json.Marshal(c)
							lbl = " " + string(b)
						}
					}
					vacuity = append(vacuity, fmt.Sprintf("scenario %v%s: counter %q stayed 0 (the state of interest was never reached)", j["scenario"], lbl, n))
				}
			}
		}
		if mo, ok := j["min_obs"].(float64); ok && jobExh && len(obs) < int(mo) {
			vacuity = append(vacuity, fmt.Sprintf("scenario %v: only %d distinct observations, expected >= %d", j["scenario"], len(obs), int(mo)))
		}
		perJob = append(perJob, map[string]any{
			"scenario": j["scenario"], "params": j["params"], "variant": j["variant"], "pb": j["pb"], "eb": j["eb"], "depth": j["depth"],
			"executions": jobExec, "steps": jobSteps, "tree_nodes": jobNodes, "states": jobStates, "by_cost": byCost,
			"distinct_observations": len(obs), "exhaustive_within_bound": jobExh, "capped": capped, "stuck_executions": jobStuck,
			"counters": jc, "max_choice_points": maxPts, "wall_s": wall,
		})
	}

	// classify violations
	var sigs []string
	for s := range violBySig {
		sigs = append(sigs, s)
	}
	sort.Strings(sigs)
	replayDir := envOr("VERIF_REPLAY_DIR", filepath.Join(verifDir, "replays"))
	os.MkdirAll(replayDir, 0o755)
	exit := 0
	var unknownSigs, knownSigs []string
	for _, sig := range sigs {
		v := violBySig[sig]
		if f, ok := known[sig]; ok {
			fmt.Printf("KNOWN-FINDING: property=%s %s — %s (seen in %d executions; e.g. %s)\n", property, sig, f.What, violCounts[sig], oneLine(v.Detail))
			knownSigs = append(knownSigs, sig)
			continue
		}
		unknownSigs = append(unknownSigs, sig)
		name := strings.NewReplacer("/", "_", "‖", "-", " ", "_").Replace(sig)
		path := filepath.Join(replayDir, name+".json")
		rp := map[string]any{"property": property, "signature": sig, "job": violJob[sig], "violation": v}
		b, _ := json.MarshalIndent(rp, "", " ")
		os.WriteFile(path, b, 0o644)
		fmt.Printf("violation %s: %s\n", sig, v.Detail)
		if len(v.Ops) > 0 {
			fmt.Printf("  ops: %s\n", strings.Join(v.Ops, " ; "))
		}
		for _, o := range v.Obs {
			fmt.Printf("  obs: %s\n", o)
		}
		fmt.Printf("VIOLATION property=%s replay=%s\n", property, path)
		exit = 1
	}
	// A counter that stayed 0 means a scenario did not reach the state it was built for. On the unchanged tree that
	// is a mistake in the scenario (VERIF_STRICT=1 makes it fatal, used while developing the checks); on an edited
	// tree it may simply mean the edit moved the state elsewhere, which is no verdict about the property: it is
	// reported, recorded in the evidence (exhaustive=false) and does not fail the run.
	strict := os.Getenv("VERIF_STRICT") == "1"
	if !strict && len(vacuity) > 0 {
		for _, m := range vacuity {
			fmt.Printf("VACUITY-WARNING %s\n", m)
		}
		exhaustive = false
	}
	if len(infra) > 0 || (strict && len(vacuity) > 0) {
		seenMsg := map[string]bool{}
		for _, m := range infra {
			if len(m) > 1500 {
				m = m[:1500] + " …"
			}
			if seenMsg[m] {
				continue
			}
			seenMsg[m] = true
			fmt.Printf("INFRA-ERROR %s\n", m)
		}
		if strict {
			for _, m := range vacuity {
				fmt.Printf("INFRA-ERROR vacuous run: %s\n", m)
			}
		}
		if exit == 0 {
			exit = 2
		}
	}

	states := totalNodes + totalStates
	ev := map[string]any{
		"property_id": property,
		"tier":        *tier,
		"seed":        seed,
		"level":       "model_checking",
		"wall_s":      time.Since(start).Seconds(),
		"violations":  len(unknownSigs),
		"coverage": map[string]any{
			"states":                        states,
			"transitions":                   totalSteps,
			"traces_validated_against_impl": totalExec,
			"evaluations":                   totalExec,
			"distinct_nontrivial":           nontrivial,
			"rule": "E2: every evaluation is one complete execution of the real (instrumented) code under the controlled scheduler, identified by its distinct choice list; states = nodes of the schedule tree (distinct schedule prefixes at choice points), transitions = scheduling steps executed; non-trivial = the schedule contains at least one preemption or environment deviation. " +
				"E1: every evaluation is one operation sequence replayed on a fresh real cache; states = distinct canonical states, transitions = operations applied; non-trivial = sequences of length >= 2.",
			"exhaustive":            exhaustive,
			"samples":               samples,
			"jobs":                  perJob,
			"distinct_observations": len(obsAll),
			"vacuity_counters":      counters,
			"stuck_executions":      totalStuck,
			"known_findings_seen":   knownSigs,
			"violation_signatures":  unknownSigs,
			"instrumenter_skips":    skipsOf(instrs),
			"engines":               keys(engines),
			"race_pass":             racePass,
			"assumption_failures":   raceReports,
			"vacuity_warnings":      vacuity,
		},
		"assumptions": []string{
			"interleavings are at the granularity of sync and sync/atomic operations (sequentially consistent); plain memory accesses are assumed race-free",
			"hashing, randomness, sync.Pool, map iteration order and GOMAXPROCS-derived sizes are replaced by deterministic seams (see DESIGN.md section 3.5)",
			"bounds as listed per job (threads, operations, keys, preemption/environment bound, depth)",
		},
	}
	if len(samples) == 0 {
		ev["coverage"].(map[string]any)["samples"] = []any{"no sample recorded"}
	}
	b, _ := json.MarshalIndent(ev, "", " ")
	evDir := envOr("VERIF_EVIDENCE_DIR", filepath.Join(verifDir, "evidence"))
	os.MkdirAll(evDir, 0o755)
	if err := os.WriteFile(filepath.Join(evDir, property+".json"), b, 0o644); err != nil {
		fatalInfra("writing evidence: %v", err)
	}
	fmt.Printf("%s %s: executions=%d steps=%d tree_nodes=%d states=%d distinct_obs=%d exhaustive=%v stuck=%d known=%d violations=%d wall=%.1fs\n",
		property, *tier, totalExec, totalSteps, totalNodes, totalStates, len(obsAll), exhaustive, totalStuck, len(knownSigs), len(unknownSigs), time.Since(start).Seconds())
	os.Exit(exit)
}

func oneLine(s string) string {
	s = strings.ReplaceAll(s, "\n", " ")
	if len(s) > 200 {
		s = s[:200] + "…"
	}
	return s
}

func keys(m map[string]bool) []string {
	var ks []string
	for k := range m {
		ks = append(ks, k)
	}
	sort.Strings(ks)
	return ks
}

func skipsOf(m map[string]*instrument.Result) []string {
	var out []string
	for v, r := range m {
		if r == nil {
			continue
		}
		for _, s := range r.Skipped {
			out = append(out, v+": "+s)
		}
	}
	sort.Strings(out)
	return out
}
