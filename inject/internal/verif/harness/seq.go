package harness

import (
	"encoding/json"
	"fmt"
	"sort"
	"strings"
	"time"

	otter "github.com/maypok86/otter/v2"
	"github.com/maypok86/otter/v2/internal/verif/vdet"
)

// E1: sequential explicit-state exploration of the real cache against Model.

// seqDisc is a discrepancy found at step `at` of a sequence.
type seqDisc struct {
	Discrepancy
	at int
}

type seqRunner struct {
	cfg      CacheCfg
	r        *Rig
	m        *Model
	disc     []seqDisc
	step     int
	deferred bool
	// bookkeeping for the oracles
	nAtomic, nEvents, nCalcs, nLoads int
	writtenAt                        map[int]int64 // value -> clock when its write returned
	counters                         map[string]int
	// stats tallies (C20)
	expHits, expMisses      uint64
	expLoadOK, expLoadFail  uint64
	expEvictions, expEvictW uint64
	prevStats               [6]uint64
	probe                   bool
	windowMax0              uint64
	// scale jobs: which large-state features the run has reached (vacuity counters)
	track          bool
	lastSketchSize uint64
	lastWindowMax  uint64
}

func newSeqRunner(cfg CacheCfg) *seqRunner {
	vdet.Reset()
	s := &seqRunner{cfg: cfg, writtenAt: map[int]int64{}, counters: map[string]int{}}
	s.r = NewRig(cfg, nil)
	s.m = NewModel(cfg)
	s.deferred = cfg.Executor == "deferred"
	s.windowMax0 = s.r.C.VerifSnapshot().WindowMax
	return s
}

func (s *seqRunner) fail(kind, subject, format string, args ...any) {
	s.disc = append(s.disc, seqDisc{Discrepancy{Kind: kind, Subject: subject, Detail: fmt.Sprintf(format, args...)}, s.step})
}

func stripOpts(op string) string {
	var f []string
	for _, tok := range strings.Fields(op) {
		if strings.HasPrefix(tok, "ttl=") || strings.HasPrefix(tok, "rttl=") {
			continue
		}
		f = append(f, tok)
	}
	return strings.Join(f, " ")
}

func opKey(op string) (int, bool) {
	f := strings.Fields(stripOpts(op))
	if len(f) < 2 || strings.Contains(f[1], ",") {
		return 0, false
	}
	switch f[0] {
	case "adv", "setmax", "runexec", "mkiter", "useiter", "alladv", "keysadv", "coldestadv", "hottestadv", "allinv":
		return 0, false
	}
	return atoi(f[1]), true
}

// apply runs one op on cache and model and evaluates every oracle.
func (s *seqRunner) apply(op string) OpResult {
	if s.cfg.SampleSize > 0 {
		s.r.C.VerifSetSampleSize(s.cfg.SampleSize)
	}
	r, m := s.r, s.m
	name := opName(op)
	k, hasKey := opKey(op)
	wasExpired := hasKey && m.expiredUnswept(k)
	if wasExpired {
		s.counters["ops-on-expired-unswept"]++
	}
	// C20: lookups counted by the counting operations, judged on the abstract map before the op
	preHits, preMisses := s.expHits, s.expMisses
	if s.cfg.Stats {
		f := strings.Fields(op)
		switch f[0] {
		case "get", "gete", "load", "cw", "ci", "cc", "cp", "cia", "ciac", "cipw", "cipi", "cipc":
			if _, ok := m.get(k); ok {
				s.expHits++
			} else {
				s.expMisses++
			}
		case "bulk":
			seen := map[int]bool{}
			for _, kk := range keyList(f[1]) {
				if seen[kk] {
					continue
				}
				seen[kk] = true
				if _, ok := m.get(kk); ok {
					s.expHits++
				} else {
					s.expMisses++
				}
			}
		}
	}
	res := r.Do(-1, op)
	if res.Panic != "" && s.r.Counter != nil && strings.Contains(res.Panic, "compute panic") {
		// whether an operation that panicked counts as a lookup is not specified: follow the recorder
		st := s.r.Counter.Snapshot()
		if st.Hits+st.Misses == preHits+preMisses {
			s.expHits, s.expMisses = preHits, preMisses
		}
	}
	if strings.HasPrefix(op, "cleanup") && !s.deferred {
		// C17: every successfully recorded read is delivered once the cache is quiescent and maintenance runs
		if st := s.r.C.VerifStatus(); st.ReadBufferLen != 0 {
			s.fail("reads-stuck-in-buffer", "readBuffer", "after op %q (single goroutine, same-goroutine executor) the read buffer still holds %d recorded reads: maintenance does not deliver them", op, st.ReadBufferLen)
		}
		s.counters["cleanups-with-empty-read-buffer"]++
	}
	hooks := r.Calcs[s.nCalcs:]
	loads := r.Loads[s.nLoads:]
	s.nCalcs, s.nLoads = len(r.Calcs), len(r.Loads)
	preStale := false
	if hasKey {
		if e, ok := m.get(k); ok && m.stale(e) {
			preStale = true
			s.counters["ops-on-refresh-due"]++
		}
	}
	_ = preStale
	// C12: which calculator hook a write must consult is unambiguous: a write to an absent (or expired) key is a
	// creation, a write to a present key an update
	if s.cfg.Expiry != "" && hasKey && res.Panic == "" {
		f := strings.Fields(stripOpts(op))
		_, present := m.get(k)
		writes := false
		switch f[0] {
		case "set", "cw":
			writes = true
		case "sia", "cia":
			writes = !present
		case "cipw":
			writes = present
		case "load":
			// a load of an absent (or expired) key that yields a value installs it: a creation
			writes = !present && len(f) > 2 && f[2] == "val" && len(loads) > 0
		case "refresh":
			// an explicit refresh whose (re)load ran inside the call and yielded a value: an update of a present entry,
			// a creation over an absent or expired one
			writes = !s.deferred && s.cfg.Refresh != "" && len(f) > 2 && f[2] == "val" && len(loads) == 1 && loads[0].Err == ""
		}
		if writes {
			want := map[string]string{"creating": "create", "writing": "write", "accessing": "access", "custom": "create"}[s.cfg.Expiry]
			if present {
				want = map[string]string{"creating": "", "writing": "write", "accessing": "access", "custom": "update"}[s.cfg.Expiry]
			}
			got := ""
			for _, h := range hooks {
				if h.Key == k && (h.Hook == "create" || h.Hook == "update" || h.Hook == "write" || h.Hook == "access") {
					got = h.Hook
				}
			}
			if got != want {
				what := "an update of a present entry"
				if !present {
					what = "a creation (the key was absent or expired)"
				}
				s.fail("hook-mismatch", name, "op %q is %s: expected the %q expiry hook to be consulted, observed %q", op, what, want, got)
			}
			s.counters["hook-checks"]++
		}
	}
	// the same for the refresh calculator: a write to an absent or expired key is a creation
	if s.cfg.Refresh != "" && hasKey && res.Panic == "" {
		f := strings.Fields(stripOpts(op))
		_, present := m.get(k)
		writes := false
		switch f[0] {
		case "set", "cw":
			writes = true
		case "sia", "cia":
			writes = !present
		case "cipw":
			writes = present
		case "load":
			writes = !present && len(f) > 2 && f[2] == "val" && len(loads) > 0
		case "refresh":
			writes = !s.deferred && len(f) > 2 && f[2] == "val" && len(loads) == 1 && loads[0].Err == ""
		}
		if writes {
			want := map[string]string{"creating": "rcreate", "writing": "rwrite"}[s.cfg.Refresh]
			if present && s.cfg.Refresh == "creating" {
				want = ""
			}

			got := ""
			for _, h := range hooks {
				if h.Key == k && (h.Hook == "rcreate" || h.Hook == "rwrite") {
					got = h.Hook
				}
			}
			if got != want {
				what := "an update of a present entry"
				if !present {
					what = "a creation (the key was absent or expired)"
				}
				s.fail("hook-mismatch", name, "op %q is %s: expected the %q refresh hook to be consulted, observed %q", op, what, want, got)
			}
		}
	}
	preTotal := m.totalWeight()
	m.added = 0
	m.loadInstalls = nil
	ex := m.Step(stripOpts(op), res, hooks, loads, s.deferred)
	trans := preTotal + m.added // upper bound of the total weight at any instant of this op
	iterOp := ex.mapRes != nil && strings.HasPrefix(op, "all") || ex.isList

	mismatch := func(format string, args ...any) {
		kind := "result-mismatch"
		if wasExpired {
			kind = "expired-observed"
		}
		s.fail(kind, name, "op %q: "+format, append([]any{op}, args...)...)
	}
	// 1. results
	loaderPanicked := false
	for _, lc := range loads {
		if lc.Err == "panic" {
			loaderPanicked = true
		}
	}
	switch {
	case loaderPanicked && strings.Contains(res.Panic, "loader panic"):
		// a panicking loader propagates to the caller that ran it (also a reload run by a same-goroutine executor)
	case ex.panics:
		if res.Panic == "" {
			mismatch("expected the callback's panic to propagate, got %s", res.String())
		}
	case res.Panic != "":
		s.fail("panic", name, "op %q panicked: %s", op, res.Panic)
	default:
		if ex.check {
			if res.OK != ex.ok || res.Val != ex.val || res.Err != ex.err {
				mismatch("cache returned (%d,%v,%q), the abstract map returns (%d,%v,%q)", res.Val, res.OK, res.Err, ex.val, ex.ok, ex.err)
			}
		}
		if ex.calls >= 0 && res.Calls != ex.calls {
			mismatch("compute function ran %d times, expected %d", res.Calls, ex.calls)
		}
		if ex.saw != nil && res.Calls > 0 && (res.SawVal != ex.saw[0] || res.SawOK != (ex.saw[1] == 1)) {
			mismatch("compute function saw (%d,%v), the abstract map holds (%d,%v)", res.SawVal, res.SawOK, ex.saw[0], ex.saw[1] == 1)
		}
		if ex.mapRes != nil && !iterOp {
			if !sameMap(res.Map, ex.mapRes) || (strings.HasPrefix(op, "bulk ") && (res.OK != ex.ok || res.Err != ex.err)) {
				kind := "result-mismatch"
				if strings.HasPrefix(op, "bulk ") {
					for kk, v := range res.Map {
						if _, want := ex.mapRes[kk]; !want && v == 0 {
							kind = "unsupplied-key-in-result"
						}
					}
				}
				s.fail(kind, name, "op %q: cache returned %s, the abstract map returns map%v ok=%v err=%q", op, res.String(), ex.mapRes, ex.ok, ex.err)
			}
			if res.Err != "" && strings.HasPrefix(op, "all") {
				s.fail("iteration-duplicate", name, "%s", res.Err)
			}
		}
		if false {
			got := append([]int(nil), res.List...)
			sort.Ints(got)
			want := append([]int(nil), ex.list...)
			sort.Ints(want)
			if fmt.Sprint(got) != fmt.Sprint(want) {
				kind := "result-mismatch"
				for _, g := range got {
					if e := m.m[g]; e != nil && e.exp <= m.now {
						kind = "expired-observed"
					}
				}
				s.fail(kind, name, "op %q yields %v, the abstract map holds %v", op, got, want)
			}
		}
		if ex.nilChan != res.NilChan {
			mismatch("nil channel = %v, expected %v", res.NilChan, ex.nilChan)
		}
	}
	// 1b. the fields of every Entry the operation exposed: the result of GetEntry/GetEntryQuietly, the entries of an
	// ordered iteration, and the entry handed to each calculator hook
	s.checkEntries(op, name, res, hooks)
	// 2. loader invocations
	if ex.checkLoads && !loaderPanicked {
		var got []string
		for _, lc := range loads {
			ks := append([]int(nil), lc.Keys...)
			var olds []int
			if lc.Kind == "reload" || lc.Kind == "bulkreload" {
				// pair keys with olds, sort by key
				idx := make([]int, len(ks))
				for i := range idx {
					idx[i] = i
				}
				sort.Slice(idx, func(a, b int) bool { return lc.Keys[idx[a]] < lc.Keys[idx[b]] })
				ks = ks[:0]
				for _, i := range idx {
					ks = append(ks, lc.Keys[i])
					if i < len(lc.Olds) {
						olds = append(olds, lc.Olds[i])
					}
				}
			} else {
				sort.Ints(ks)
			}
			if lc.Kind == "bulkreload" {
				// how stale keys are batched into BulkReload calls is not specified: compare key by key
				for i, k := range ks {
					o := []int(nil)
					if i < len(olds) {
						o = olds[i : i+1]
					}
					got = append(got, expLoad{lc.Kind, []int{k}, o}.String())
				}
				continue
			}
			got = append(got, expLoad{lc.Kind, ks, olds}.String())
		}
		var want []string
		for _, l := range ex.loads {
			if l.kind == "bulkreload" {
				for i, k := range l.keys {
					o := []int(nil)
					if i < len(l.olds) {
						o = l.olds[i : i+1]
					}
					want = append(want, expLoad{l.kind, []int{k}, o}.String())
				}
				continue
			}
			want = append(want, l.String())
		}
		sort.Strings(got)
		sort.Strings(want)
		if strings.Join(got, ";") != strings.Join(want, ";") {
			s.fail("loader-calls", name, "op %q invoked the loader as [%s], expected [%s]", op, strings.Join(got, "; "), strings.Join(want, "; "))
		}
	}
	// 3. removals reported atomically during this op
	newAtomic := r.Atomic[s.nAtomic:]
	s.nAtomic = len(r.Atomic)
	pendingExp := append([]expEvent(nil), ex.removed...)
	for _, ev := range newAtomic {
		matched := false
		for i, pe := range pendingExp {
			if pe.key == ev.Key && pe.val == ev.Val {
				okCause := false
				for _, c := range pe.causes {
					if c == ev.Cause {
						okCause = true
					}
				}
				if !okCause {
					// pending maintenance may run inside the op and remove the entry first, for its own (truthful) reason
					w := m.weightOf(ev.Val)
					bounded := s.cfg.MaxSize > 0 || s.cfg.MaxWeight > 0
					switch {
					case ev.Cause == otter.CauseOverflow && bounded && w > 0 && (trans > m.max || w > m.max):
						trans -= w
						s.counters["overflow-evictions"]++
					default:
						s.fail("wrong-cause", name, "op %q removed %d=%d: reported cause %s, expected one of %v", op, ev.Key, ev.Val, ev.Cause, pe.causes)
					}
				}
				pendingExp = append(pendingExp[:i], pendingExp[i+1:]...)
				matched = true
				break
			}
		}
		if matched {
			continue
		}
		optional := false
		for i, pe := range ex.optional {
			if pe.key == ev.Key && pe.val == ev.Val && len(pe.causes) > 0 && pe.causes[0] == ev.Cause {
				ex.optional = append(ex.optional[:i], ex.optional[i+1:]...)
				delete(m.m, ev.Key)
				optional = true
				break
			}
		}
		if optional {
			continue
		}
		// automatic removal
		e := m.m[ev.Key]
		if e == nil || e.val != ev.Val {
			s.fail("event-for-unknown-value", "OnAtomicDeletion", "op %q: removal of %d=%d reported (%s) but the abstract map does not hold that value", op, ev.Key, ev.Val, ev.Cause)
			continue
		}
		switch ev.Cause {
		case otter.CauseExpiration:
			if e.exp > m.now {
				s.fail("untruthful-expiration", name, "op %q: %d=%d removed with cause Expiration at clock %d but its deadline is %d", op, ev.Key, ev.Val, m.now, e.exp)
			}
			s.expEvictions++
			s.expEvictW += uint64(valWeightCfg(s.cfg, ev.Val))
		case otter.CauseOverflow:
			w := m.weightOf(ev.Val)
			switch {
			case s.cfg.MaxSize == 0 && s.cfg.MaxWeight == 0:
				s.fail("overflow-without-bound", name, "op %q: %d=%d removed with cause Overflow in a cache without a size bound", op, ev.Key, ev.Val)
			case w == 0:
				s.fail("zero-weight-evicted", name, "op %q: zero-weight entry %d=%d removed with cause Overflow", op, ev.Key, ev.Val)
			case trans <= m.max && w <= m.max:
				s.fail("unjustified-overflow", name, "op %q: %d=%d (weight %d) removed with cause Overflow while the total weight (at most %d during this operation) does not exceed the maximum %d", op, ev.Key, ev.Val, w, trans, m.max)
			}
			if s.cfg.Expiry != "" && e.exp < m.now-tickNs && s.writtenAt[ev.Val] < m.now-tickNs && w <= m.max {
				// C13: an entry that expired more than a tick ago leaves as expired (the sweep precedes size eviction;
				// an entry that alone exceeds the maximum is evicted when its event is applied, before any sweep)
				s.fail("expiration-misreported", name, "op %q: %d=%d removed with cause Overflow at clock %d although its deadline %d passed more than one tick ago: its Expiration event is never delivered", op, ev.Key, ev.Val, m.now, e.exp)
			}
			if trans >= w {
				trans -= w
			}
			s.expEvictions++
			s.expEvictW += uint64(valWeightCfg(s.cfg, ev.Val))
			s.counters["overflow-evictions"]++
		default:
			s.fail("unexpected-removal", name, "op %q: %d=%d removed with cause %s, which this operation does not explain", op, ev.Key, ev.Val, ev.Cause)
		}
		delete(m.m, ev.Key)
	}
	// An automatic removal of a key (eviction of its previous, e.g. expired, entry by the maintenance that an
	// earlier install of the same bulk operation triggered) cancels the key's in-flight load: "evicted in between".
	// The loaded value is then handed to the caller but not installed.
	if len(m.loadInstalls) > 0 {
		rawNow := map[int]int{}
		for _, n := range r.C.VerifRawTable() {
			rawNow[n.Key] = n.Value
		}
		for kk, vv := range m.loadInstalls {
			if e := m.m[kk]; e == nil || e.val != vv {
				continue
			}
			if cur, ok := rawNow[kk]; ok && cur == vv {
				continue
			}
			evictedDuringOp := false
			for _, ev := range newAtomic {
				if ev.Key == kk && ev.Val != vv && (ev.Cause == otter.CauseOverflow || ev.Cause == otter.CauseExpiration) {
					evictedDuringOp = true
				}
			}
			if evictedDuringOp {
				delete(m.m, kk)
				s.counters["cancelled-installs"]++
				// the previous entry's own removal was reported as an automatic one: drop the explicit expectation
				for i := 0; i < len(pendingExp); i++ {
					if pendingExp[i].key == kk {
						pendingExp = append(pendingExp[:i], pendingExp[i+1:]...)
						i--
					}
				}
			}
		}
	}
	for _, pe := range pendingExp {
		s.fail("event-missing", "OnAtomicDeletion", "op %q replaced/removed %d=%d but OnAtomicDeletion did not report it", op, pe.key, pe.val)
	}
	// 3b. iteration results are judged after the removals reported during the call (maintenance may run first)
	if iterOp && res.Panic == "" {
		if ex.mapRes != nil {
			want := map[int]int{}
			for _, kk := range m.liveKeys() {
				want[kk] = m.m[kk].val
			}
			if !sameMap(res.Map, want) {
				kind := "result-mismatch"
				for kk := range res.Map {
					if e := m.m[kk]; e != nil && e.exp <= m.now {
						kind = "expired-observed"
					}
				}
				s.fail(kind, name, "op %q yields %v, the abstract map holds %v", op, res.Map, want)
			}
			if res.Err != "" {
				s.fail("iteration-duplicate", name, "%s", res.Err)
			}
		} else {
			got := append([]int(nil), res.List...)
			sort.Ints(got)
			var want []int
			if strings.HasPrefix(op, "values") {
				for _, kk := range m.liveKeys() {
					want = append(want, m.m[kk].val)
				}
			} else {
				want = m.liveKeys()
			}
			sort.Ints(want)
			if strings.Fields(op)[0] == "allinv" {
				lb := append([]int(nil), ex.listBefore...)
				sort.Ints(lb)
				if fmt.Sprint(got) != fmt.Sprint(lb) {
					s.fail("result-mismatch", name, "op %q (every yielded key is invalidated inside the loop body) yields %v, the abstract map held %v when the iteration began", op, got, lb)
				}
				s.counters["self-mutating-iterations"]++
			} else if f0 := strings.Fields(op)[0]; strings.HasSuffix(f0, "adv") && f0 != "adv" {
				// the clock advanced after the first element was yielded: the first element was live before the advance,
				// every later one is live after it (an entry whose deadline passed meanwhile is not iterated over), no key
				// twice, and every key that is live after the advance (present for the whole iteration) is yielded
				inList := func(l []int, k int) bool {
					for _, x := range l {
						if x == k {
							return true
						}
					}
					return false
				}
				seen := map[int]bool{}
				for i, g := range res.List {
					if seen[g] {
						s.fail("iteration-duplicate", name, "op %q yields key %d twice", op, g)
					}
					seen[g] = true
					if i == 0 {
						if !inList(ex.listBefore, g) {
							s.fail("result-mismatch", name, "op %q yields key %d first, which the abstract map did not hold when the iteration began (%v)", op, g, ex.listBefore)
						}
					} else if !inList(want, g) {
						kind := "result-mismatch"
						if e := m.m[g]; e != nil && e.exp <= m.now {
							kind = "expired-observed"
						}
						s.fail(kind, name, "op %q yields key %d after the clock had advanced to %d inside the loop body; the abstract map holds %v then", op, g, m.now, want)
					}
				}
				for _, w := range want { // the keys live now: entries whose eviction was reported during the operation have left the map
					if !seen[w] {
						s.fail("result-mismatch", name, "op %q does not yield key %d which is present during the whole iteration", op, w)
					}
				}
				s.counters["iterations-across-clock-advance"]++
			} else if strings.HasPrefix(op, "useiter") {
				// an iterator obtained earlier and ranged now: nothing that is absent or expired now may be yielded, no key
				// twice, and every entry that was present when it was obtained and still is (same value) must be yielded
				seen := map[int]bool{}
				for _, g := range got {
					if seen[g] {
						s.fail("iteration-duplicate", name, "op %q yields key %d twice", op, g)
					}
					seen[g] = true
					if _, live := m.get(g); !live {
						kind := "result-mismatch"
						if e := m.m[g]; e != nil && e.exp <= m.now {
							kind = "expired-observed"
						}
						s.fail(kind, name, "op %q (an iterator obtained earlier, ranged now) yields key %d which the abstract map does not hold now (it holds %v)", op, g, want)
					}
				}
				if res.OK {
					for kk, vv := range m.iterSnap {
						if e, live := m.get(kk); live && e.val == vv && !seen[kk] {
							s.fail("result-mismatch", name, "op %q does not yield key %d although it was present when the iterator was obtained and still is", op, kk)
						}
					}
				}
			} else if f0 := strings.Fields(op)[0]; f0 == "all1" || f0 == "keys1" || f0 == "coldest1" || f0 == "hottest1" {
				// abandoned after the first element: exactly one live key if there is any, none otherwise
				okFirst := len(got) == 0 && len(want) == 0
				if len(got) == 1 {
					for _, w := range want {
						if w == got[0] {
							okFirst = true
						}
					}
				}
				if !okFirst {
					kind := "result-mismatch"
					for _, g := range got {
						if e := m.m[g]; e != nil && e.exp <= m.now {
							kind = "expired-observed"
						}
					}
					s.fail(kind, name, "op %q (iteration abandoned after the first element) yields %v, the abstract map holds %v", op, got, want)
				}
			} else if fmt.Sprint(got) != fmt.Sprint(want) {
				kind := "result-mismatch"
				if !strings.HasPrefix(op, "values") {
					for _, g := range got {
						if e := m.m[g]; e != nil && e.exp <= m.now {
							kind = "expired-observed"
						}
					}
				}
				s.fail(kind, name, "op %q yields %v, the abstract map holds %v", op, got, want)
			}
		}
	}
	// 4. OnDeletion must mirror the atomic handler once the executor has run
	if !s.deferred || strings.HasPrefix(op, "runexec") && len(r.Deferred) == 0 {
		if miss := multisetDiffCause(r.Atomic, r.Events); len(miss) > 0 {
			s.fail("event-missing", "OnDeletion", "after op %q: reported atomically but not to OnDeletion (or with another cause): %v", op, miss)
		}
		if extra := multisetDiffCause(r.Events, r.Atomic); len(extra) > 0 {
			s.fail("event-duplicate", "OnDeletion", "after op %q: OnDeletion reported more than OnAtomicDeletion: %v", op, extra)
		}
	}
	// 5. state comparison
	s.compareState(op, name)
	// 5b. visibility probes (C12): visible at deadline-1, invisible at deadline; never-expiring if the sum overflowed
	if s.probe && s.cfg.Expiry != "" {
		saved := r.Clock.now
		for _, kk := range m.liveKeys() {
			e := m.m[kk]
			if e.exp != never {
				r.Clock.now = e.exp - 1
				if _, ok := r.C.GetEntryQuietly(kk); !ok && e.exp-1 >= saved {
					s.fail("invisible-before-deadline", name, "after op %q key %d (deadline %d) is not visible at clock deadline-1", op, kk, e.exp)
				}
				r.Clock.now = e.exp
				if _, ok := r.C.GetEntryQuietly(kk); ok {
					s.fail("visible-at-deadline", name, "after op %q key %d (deadline %d) is still visible at clock = deadline", op, kk, e.exp)
				}
			} else {
				for _, t := range []int64{saved + 1, satAdd(saved, 10*365*24*3600*1e9), never - 1} {
					r.Clock.now = t
					if _, ok := r.C.GetEntryQuietly(kk); !ok {
						s.fail("deadline-wrapped", name, "after op %q key %d should effectively never expire (time + duration exceeds the representable range) but is invisible at clock %d", op, kk, t)
						break
					}
				}
			}
			s.counters["probes"]++
		}
		r.Clock.now = saved
	}
	// 5c. explicit refreshes deliver exactly one result per call (C11)
	if !s.deferred || len(r.Deferred) == 0 {
		for _, rc := range r.refreshChans {
			select {
			case v := <-rc.ch:
				s.counters["refresh-results"]++
				if msg := refreshResultWrong(r, v.Key, v.Value, v.Err); msg != "" {
					s.fail("refresh-result-wrong", "Refresh", "%q reports {key %d, value %d, err %v}: %s", rc.op, v.Key, v.Value, v.Err, msg)
				}
				select {
				case <-rc.ch:
					s.fail("refresh-channel", "Refresh", "%q delivered a second result on its channel", rc.op)
				default:
				}
			default:
				s.fail("refresh-channel", "Refresh", "%q delivered no result on its channel although the executor has run", rc.op)
			}
		}
		r.refreshChans = nil
		for _, rc := range r.bulkRefreshChans {
			select {
			case v := <-rc.ch:
				want := map[int]bool{}
				for _, kk := range keyList(strings.Fields(stripOpts(rc.op))[1]) {
					want[kk] = true
				}
				got := map[int]int{}
				for _, rr := range v {
					got[rr.Key]++
					// each result carries exactly what a loader produced for that key: a value it returned, or nothing
					if msg := refreshResultWrong(r, rr.Key, rr.Value, rr.Err); msg != "" {
						s.fail("refresh-result-wrong", "BulkRefresh", "%q reports {key %d, value %d, err %v}: %s", rc.op, rr.Key, rr.Value, rr.Err, msg)
					}
				}
				for kk := range want {
					if got[kk] != 1 {
						s.fail("refresh-channel", "BulkRefresh", "%q delivered %d results for key %d", rc.op, got[kk], kk)
					}
				}
				s.counters["refresh-results"]++
				select {
				case <-rc.ch:
					s.fail("refresh-channel", "BulkRefresh", "%q delivered a second result on its channel", rc.op)
				default:
				}
			default:
				s.fail("refresh-channel", "BulkRefresh", "%q delivered no result on its channel although the executor has run", rc.op)
			}
		}
		r.bulkRefreshChans = nil
	}
	// 5d. no in-flight load record survives an operation that has returned (same-goroutine executor) — C08
	if !s.deferred {
		if st := r.C.VerifStatus(); st.InFlightCalls > 0 {
			s.fail("inflight-left", name, "after op %q returned, %d in-flight load records remain: a later Get/Refresh of such a key would wait forever", op, st.InFlightCalls)
		}
	}
	// 6. sweep guarantee (C13)
	if strings.HasPrefix(op, "cleanup") && s.cfg.Expiry != "" {
		for kk, e := range m.m {
			if e.exp < m.now-tickNs && s.writtenAt[e.val] < m.now-tickNs {
				s.fail("timer-not-swept", "CleanUp", "CleanUp at clock %d left %d=%d in place although its deadline %d lies more than one tick (2^30 ns) in the past (written at %d)", m.now, kk, e.val, e.exp, s.writtenAt[e.val])
			}
		}
		s.counters["cleanups-with-expiry"]++
	}
	for _, e := range m.m {
		if _, ok := s.writtenAt[e.val]; !ok {
			s.writtenAt[e.val] = m.now
		}
	}
	if s.track {
		s.trackScale()
	}
	if st := r.C.VerifStatus(); st.WithMaintenance && st.ReadBufferLen >= 4 {
		s.counters["read-buffer-saturated"]++
	}
	// 7. size bound after every op with a same-goroutine executor (C04)
	if (s.cfg.MaxSize > 0 || s.cfg.MaxWeight > 0) && !s.deferred {
		var sum uint64
		for _, n := range r.C.VerifRawTable() {
			if n.ExpiresAt > m.now && (n.State == "alive" || n.State == "n/a") {
				sum += m.weightOf(n.Value)
			}
		}
		if sum > m.max {
			s.fail("bound-exceeded", name, "after op %q the entries present weigh %d, the maximum is %d", op, sum, m.max)
		}
	}
	return res
}

func valWeightCfg(cfg CacheCfg, v int) uint32 {
	if cfg.MaxWeight > 0 {
		return valWeight(v) << cfg.WeightShift
	}
	return 1
}

func multisetDiffCause(a, b []DelEvent) []string {
	cnt := map[string]int{}
	for _, e := range a {
		cnt[e.String()]++
	}
	for _, e := range b {
		cnt[e.String()]--
	}
	var out []string
	for k, n := range cnt {
		if n > 0 {
			out = append(out, k)
		}
	}
	sort.Strings(out)
	return out
}

func sameMap(a, b map[int]int) bool {
	if len(a) != len(b) {
		return false
	}
	for k, v := range a {
		if w, ok := b[k]; !ok || w != v {
			return false
		}
	}
	return true
}

// compareState: the cache holds exactly the live entries of the model, with the same deadlines.
// Only side-effect-free observers are used (the raw table and GetEntryQuietly): Cache.All would
// schedule maintenance when it meets an expired node and so destroy the expired-but-unswept states
// that later operations must be tried on. Iteration itself is judged by the explicit iteration symbols.
func (s *seqRunner) compareState(op, name string) {
	r, m := s.r, s.m
	raw := map[int]int{}
	for _, n := range r.C.VerifRawTable() {
		if _, dup := raw[n.Key]; dup {
			s.fail("table-duplicate-key", "table", "after op %q key %d is in the table twice", op, n.Key)
		}
		raw[n.Key] = n.Value
	}
	resurrect := strings.HasPrefix(op, "sea") || strings.HasPrefix(op, "sra")
	for k, v := range raw {
		e := m.m[k]
		ent, visible := r.C.GetEntryQuietly(k)
		switch {
		case e == nil || e.val != v:
			if visible {
				s.fail("phantom-value", name, "after op %q the cache holds %d=%d which the abstract map does not", op, k, ent.Value)
			}
		case e.exp <= m.now:
			if visible {
				kind := "expired-observed"
				if resurrect {
					kind = "expired-resurrected"
				}
				s.fail(kind, "GetEntryQuietly", "after op %q GetEntryQuietly(%d) returns %d (expires %d) although the deadline %d passed at clock %d", op, k, ent.Value, ent.ExpiresAtNano, e.exp, m.now)
			}
		}
	}
	for _, k := range m.liveKeys() {
		e := m.m[k]
		ent, ok := r.C.GetEntryQuietly(k)
		if !ok || ent.Value != e.val {
			s.fail("missing-entry", name, "after op %q the abstract map holds %d=%d (deadline %d, clock %d) but the cache does not, and no eviction was reported", op, k, e.val, e.exp, m.now)
			continue
		}
		wantExp, wantRef := never, never
		if s.cfg.Expiry != "" {
			wantExp = e.exp
		}
		if s.cfg.Refresh != "" {
			wantRef = e.ref
		}
		if ent.Weight != valWeightCfg(s.cfg, e.val) {
			s.fail("entry-mismatch", "GetEntryQuietly", "after op %q entry of key %d has weight %d, expected %d", op, k, ent.Weight, valWeightCfg(s.cfg, e.val))
		}
		if ent.ExpiresAtNano != wantExp {
			kind := "deadline-mismatch"
			if ent.ExpiresAtNano < m.now && wantExp == never {
				kind = "deadline-wrapped"
			}
			s.fail(kind, name, "after op %q key %d expires at %d, expected %d (clock %d)", op, k, ent.ExpiresAtNano, wantExp, m.now)
		}
		if ent.RefreshableAtNano != wantRef {
			s.fail("refresh-deadline-mismatch", name, "after op %q key %d is refreshable at %d, expected %d (clock %d)", op, k, ent.RefreshableAtNano, wantRef, m.now)
		}
	}
	// model entries that the table no longer holds at all must have been reported (event-driven removal)
	for k, e := range m.m {
		if _, ok := raw[k]; !ok && e.exp <= m.now {
			// expired and physically gone without an event: the Expiration report is missing
			s.fail("event-missing", "OnAtomicDeletion", "after op %q the expired entry %d=%d is gone from the table but no removal was reported", op, k, e.val)
			delete(m.m, k)
		}
	}
}

// stateKey is the canonical key of the reached state (values renamed by first appearance).
func (s *seqRunner) stateKey() string {
	snap := s.r.C.VerifSnapshot()
	rank := map[int]int{}
	rk := func(v int) string {
		id := valID(v)
		if _, ok := rank[id]; !ok {
			rank[id] = len(rank)
		}
		return fmt.Sprintf("#%d.%d", rank[id], v&15)
	}
	nodes := append([]otter.VerifNode[int, int](nil), snap.Table...)
	sort.Slice(nodes, func(i, j int) bool { return nodes[i].Key < nodes[j].Key })
	var sb strings.Builder
	fmt.Fprintf(&sb, "t=%d|", s.m.now)
	for _, n := range nodes {
		fmt.Fprintf(&sb, "%d=%s e%d r%d %s %s;", n.Key, rk(n.Value), n.ExpiresAt, n.RefreshableAt, n.State, n.Queue)
	}
	fmt.Fprintf(&sb, "|W%v P%v Q%v|max=%d ws=%d wm=%d wz=%d pm=%d pz=%d|%v|wt=%d|%s|%s|st=%+v|def=%d|", snap.Window, snap.Probation, snap.Protected,
		snap.Maximum, snap.WeightedSize, snap.WindowMax, snap.WindowSize, snap.ProtectedMax, snap.ProtectedSize, snap.Wheel, snap.WheelTime, snap.Sketch, snap.Adjust, snap.Status, len(s.r.Deferred))
	var mk []int
	for k := range s.m.m {
		mk = append(mk, k)
	}
	sort.Ints(mk)
	for _, k := range mk {
		e := s.m.m[k]
		fmt.Fprintf(&sb, "m%d=%s e%d r%d;", k, rk(e.val), e.exp, e.ref)
	}
	fmt.Fprintf(&sb, "|pend=%v|max=%d", s.m.pending, s.m.max)
	if s.r.Counter != nil {
		st := s.r.Counter.Snapshot()
		fmt.Fprintf(&sb, "|stats=%d,%d,%d,%d,%d,%d", st.Hits, st.Misses, st.Evictions, st.EvictionWeight, st.LoadSuccesses, st.LoadFailures)
	}
	return sb.String()
}

func (s *seqRunner) close() { s.r.Close() }

// checkEntries: an Entry is a snapshot of key, value, weight, both deadlines and the time it was taken.
func (s *seqRunner) checkEntries(op, name string, res OpResult, hooks []CalcCall) {
	m := s.m
	timeBased := s.cfg.Expiry != "" || s.cfg.Refresh != ""
	snapWant := int64(0)
	if timeBased {
		snapWant = m.now
	}
	f := strings.Fields(op)
	check := func(where string, e otter.Entry[int, int], key int, deadlines bool) {
		me, live := m.get(key)
		if !live || me.val != e.Value {
			return // presence and values are judged elsewhere
		}
		if e.Key != key {
			s.fail("entry-mismatch", where, "op %q: entry of key %d carries key %d", op, key, e.Key)
		}
		if w := valWeightCfg(s.cfg, e.Value); e.Weight != w {
			s.fail("entry-mismatch", where, "op %q: entry %d=%d has weight %d, expected %d", op, key, e.Value, e.Weight, w)
		}
		if e.SnapshotAtNano != snapWant {
			s.fail("entry-mismatch", where, "op %q: entry %d=%d has SnapshotAtNano %d, expected %d", op, key, e.Value, e.SnapshotAtNano, snapWant)
		}
		if !deadlines {
			return
		}
		wantExp, wantRef := never, never
		if s.cfg.Expiry != "" {
			wantExp = me.exp
		}
		if s.cfg.Refresh != "" {
			wantRef = me.ref
		}
		if e.ExpiresAtNano != wantExp {
			s.fail("entry-mismatch", where, "op %q: entry %d=%d has ExpiresAtNano %d, expected %d (clock %d)", op, key, e.Value, e.ExpiresAtNano, wantExp, m.now)
		}
		if e.RefreshableAtNano != wantRef {
			s.fail("entry-mismatch", where, "op %q: entry %d=%d has RefreshableAtNano %d, expected %d (clock %d)", op, key, e.Value, e.RefreshableAtNano, wantRef, m.now)
		}
		if timeBased && s.cfg.Expiry != "" {
			if got, want := int64(e.ExpiresAfter()), wantExp-m.now; wantExp != never && got != want {
				s.fail("entry-mismatch", where, "op %q: entry %d=%d reports ExpiresAfter %d, expected %d", op, key, e.Value, got, want)
			}
			if e.HasExpired() {
				s.fail("entry-mismatch", where, "op %q: live entry %d=%d reports HasExpired", op, key, e.Value)
			}
		}
	}
	switch f[0] {
	case "gete", "getq":
		if res.Entry != nil && res.Panic == "" {
			check(name, *res.Entry, atoi(f[1]), true)
		}
	case "coldest", "hottest":
		if !s.deferred {
			for _, e := range res.Entries {
				check(name, e, e.Key, true)
			}
		}
	}
	for hi, h := range hooks {
		// the entry handed to a calculator: the key and value the hook is about, the weight of that value, taken now
		// (its deadlines are the ones being computed and are not judged here)
		e := h.Entry
		if e.Key != h.Key {
			s.fail("entry-mismatch", "calculator", "op %q: hook %s received an entry whose key is %d, expected %d", op, h.Hook, e.Key, h.Key)
		}
		if w := valWeightCfg(s.cfg, e.Value); e.Weight != w {
			s.fail("entry-mismatch", "calculator", "op %q: hook %s received entry %d=%d with weight %d, expected %d", op, h.Hook, e.Key, e.Value, e.Weight, w)
		}
		if !s.deferred && e.SnapshotAtNano != snapWant {
			s.fail("entry-mismatch", "calculator", "op %q: hook %s received an entry with SnapshotAtNano %d, expected %d", op, h.Hook, e.SnapshotAtNano, snapWant)
		}
		// a refresh hook is consulted after the expiry of the same write has been decided: the entry it receives carries
		// the deadline the entry ends up with (judged for the last refresh hook of a key whose value survives the operation)
		if strings.HasPrefix(h.Hook, "r") && h.Hook != "read" && s.cfg.Expiry != "" && !s.deferred {
			last := true
			for _, h2 := range hooks[hi+1:] {
				if h2.Key == h.Key {
					last = false
				}
			}
			if ent, ok := s.r.C.GetEntryQuietly(h.Key); last && ok && ent.Value == e.Value && e.ExpiresAtNano != ent.ExpiresAtNano {
				s.fail("entry-mismatch", "calculator", "op %q: refresh hook %s received entry %d=%d with ExpiresAtNano %d, but the entry expires at %d", op, h.Hook, e.Key, e.Value, e.ExpiresAtNano, ent.ExpiresAtNano)
			}
		}
	}
}

// trackScale counts which large-state features a scale workload has reached so far.
func (s *seqRunner) trackScale() {
	snap := s.r.C.VerifSnapshot()
	if snap.SketchSample > 0 && snap.SketchSize < s.lastSketchSize {
		s.counters["sketch-aged"]++
	}
	s.lastSketchSize = snap.SketchSize
	if snap.PrevHitRate != 0 {
		s.counters["climber-sampled"]++
	}
	if s.lastWindowMax != 0 && snap.WindowMax != s.lastWindowMax && snap.Maximum == uint64(s.m.max) {
		s.counters["window-adapted"]++
	}
	s.lastWindowMax = snap.WindowMax
	for _, w := range snap.Wheel {
		if w[0] >= '2' {
			s.counters["wheel-upper-levels"]++
			break
		}
	}
	if g, sh := s.r.C.VerifTableResizes(); g >= 2 {
		s.counters["table-grew-twice"]++
		if sh >= 1 {
			s.counters["table-shrank-after-growth"]++
		}
	}
	if snap.Status.WriteBufferSize > 64 {
		s.counters["write-buffer-beyond-64"]++
	}
}

// auditState (C05): in the quiescent state reached, the derived views agree with the contents.
func (s *seqRunner) auditState(ops []string) {
	c := s.r.C
	for _, f := range c.VerifAudit() {
		s.fail(f.Kind, f.Subject, "after %v: %s", ops, f.Detail)
	}
	s.counters["states-audited"]++
	if snap := c.VerifSnapshot(); snap.WindowMax > s.windowMax0 {
		s.counters["window-grew"]++
	} else if snap.WindowMax < s.windowMax0 {
		s.counters["window-shrank"]++
	}
	present := map[int]int{}
	var sum uint64
	for _, n := range c.VerifRawTable() {
		present[n.Key] = n.Value
		sum += uint64(valWeightCfg(s.cfg, n.Value))
	}
	bounded := s.cfg.MaxSize > 0 || s.cfg.MaxWeight > 0
	if s.cfg.MaxWeight > 0 {
		if ws := c.WeightedSize(); ws != sum {
			s.fail("weighted-size-mismatch", "WeightedSize", "after %v: WeightedSize()=%d but the entries present weigh %d", ops, ws, sum)
		}
	}
	if bounded {
		for name, it := range map[string]func(func(otter.Entry[int, int]) bool){"Hottest": c.Hottest(), "Coldest": c.Coldest()} {
			seen := map[int]int{}
			n := 0
			for e := range it {
				n++
				if n > 10000 {
					s.fail("order-corrupt", name, "after %v: %s does not terminate", ops, name)
					break
				}
				seen[e.Key]++
				if v, ok := present[e.Key]; !ok || v != e.Value {
					if ent, vis := c.GetEntryQuietly(e.Key); !vis || ent.Value != e.Value {
						s.fail("order-phantom", name, "after %v: %s yields %d=%d which is not present", ops, name, e.Key, e.Value)
					}
				}
			}
			for k, cnt := range seen {
				if cnt > 1 {
					s.fail("order-duplicate", name, "after %v: %s yields key %d %d times", ops, name, k, cnt)
				}
			}
			for k := range present {
				if _, vis := c.GetEntryQuietly(k); vis && seen[k] == 0 {
					s.fail("order-missing", name, "after %v: %s omits the present key %d", ops, name, k)
				}
			}
		}
	}
	for k := range present {
		if _, vis := c.GetEntryQuietly(k); !vis {
			return // an expired entry awaits its sweep: the size estimate legitimately counts it
		}
	}
	n := 0
	for range c.All() {
		n++
	}
	if es := c.EstimatedSize(); es != n {
		s.fail("size-mismatch", "EstimatedSize", "after %v: EstimatedSize()=%d but iteration yields %d entries", ops, es, n)
	}
}

func hash128(s string) [2]uint64 {
	h1, h2 := uint64(14695981039346656037), uint64(0x9e3779b97f4a7c15)
	for i := 0; i < len(s); i++ {
		h1 = (h1 ^ uint64(s[i])) * 1099511628211
		h2 = (h2 + uint64(s[i]) + 1) * 0xff51afd7ed558ccd
		h2 ^= h2 >> 29
	}
	return [2]uint64{h1, h2}
}

// refreshResultWrong judges one RefreshResult without guessing which loader call it belongs to: a successful result
// carries a value some loader call returned for that key; a failed one carries the value the failing loader returned
// alongside its error, i.e. nothing (zero) unless a loader returned a value together with its error.
func refreshResultWrong(r *Rig, key, value int, err error) string {
	produced := false
	for _, lc := range r.Loads {
		if v, ok := lc.Out[key]; ok && v == value {
			if (err == nil) == (lc.Err == "") {
				produced = true
			}
		}
	}
	switch {
	case err == nil && !produced:
		return "no loader call returned that value for the key"
	case err != nil && value != 0 && !produced:
		return "a failed or not-found load has no value to report"
	}
	return ""
}

// ---- BFS driver ----

type seqParams struct {
	Label    string         `json:"label,omitempty"`
	Cfg      CacheCfg       `json:"cfg"`
	Alphabet []string       `json:"alphabet"`
	Prefixes [][]string     `json:"prefixes,omitempty"` // explored from each of these non-initial states (default: the empty prefix)
	Kinds    []string       `json:"kinds,omitempty"`    // discrepancy kinds that count for this property (empty = all)
	Stats    bool           `json:"stats,omitempty"`
	Probe    bool           `json:"probe,omitempty"`
	Audit    bool           `json:"audit,omitempty"` // run the bookkeeping audit (C05) in every reached state
	Persist  *persistParams `json:"persist,omitempty"`
}

func init() {
	Register(&Scenario{Name: "cache.seq", Seq: seqExplore})
}

func seqExplore(res *Result, raw json.RawMessage, job *Job) {
	var p seqParams
	if err := json.Unmarshal(raw, &p); err != nil {
		panic(err)
	}
	if p.Stats {
		p.Cfg.Stats = true
	}
	if job.Replay != nil {
		seqReplay(res, p, raw, job.Replay)
		return
	}
	deadline := time.Now().Add(time.Duration(job.BudgetS) * time.Second)
	kinds := map[string]bool{}
	for _, k := range p.Kinds {
		kinds[k] = true
	}
	viol := map[string]*Violation{}
	seen := map[[2]uint64]struct{}{} // 128-bit hashes of canonical state keys (a full key is ~0.5 KB; millions of states)
	prefixes := p.Prefixes
	if len(prefixes) == 0 {
		prefixes = [][]string{nil}
	}
	type item struct{ ops []string }
	var frontier []item
	for _, pre := range prefixes {
		frontier = append(frontier, item{pre})
	}
	run := func(ops []string, newFrom int) ([2]uint64, bool) {
		defer Progress.Add(1)
		s := newSeqRunner(p.Cfg)
		s.probe = p.Probe
		s.track = strings.HasPrefix(p.Label, "scale:")
		defer s.close()
		var obs []string
		func() {
			defer func() {
				if r := recover(); r != nil {
					s.fail("panic", "native", "sequence %v panicked outside an operation: %v", ops, r)
				}
			}()
			for i, op := range ops {
				s.step = i
				r := s.apply(op)
				if i >= newFrom {
					obs = append(obs, r.String())
				}
				if p.Stats {
					s.checkStats(op)
				}
			}
		}()
		key := hash128(s.stateKey()) // before the audit: its queries may run maintenance
		if p.Audit && !s.deferred && len(s.disc) == 0 {
			s.step = len(ops) - 1
			s.auditState(ops)
		}
		res.Executions++
		res.Steps += int64(len(ops))
		for k, v := range s.counters {
			res.Counters[k] += v
		}
		bad := false
		for _, d := range s.disc {
			if d.at < newFrom {
				continue // already reported when the prefix was explored
			}
			if len(kinds) > 0 && !kinds[d.Kind] && d.Kind != "panic" {
				continue
			}
			bad = true
			sig := d.Kind + "/" + d.Subject
			res.ViolCount[sig]++
			if old := viol[sig]; old == nil || len(ops) < len(old.Ops) {
				viol[sig] = &Violation{Discrepancy: d.Discrepancy, Scenario: "cache.seq", Params: raw, Ops: append([]string(nil), ops...), Cost: len(ops), Obs: obs}
			}
		}
		if len(res.Samples) < 3 && (res.Executions == 5 || res.Executions == 500 || res.Executions == 5000) {
			res.Samples = append(res.Samples, map[string]any{"cfg": p.Cfg.String(), "ops": ops, "last_result": obs})
		}
		if p.Persist != nil && !bad {
			if _, dup := seen[key]; !dup {
				s.step = len(ops)
				n := persistCheck(s, p.Persist, func(kind, subject, format string, args ...any) {
					sig := kind + "/" + subject
					res.ViolCount[sig]++
					if old := viol[sig]; old == nil || len(ops) < len(old.Ops) {
						viol[sig] = &Violation{Discrepancy: Discrepancy{Kind: kind, Subject: subject, Detail: fmt.Sprintf(format, args...)}, Scenario: "cache.seq", Params: raw, Ops: append(append([]string(nil), ops...), "save; load"), Cost: len(ops)}
					}
				})
				res.Counters["round-trips"] += n
			}
		}
		return key, bad
	}
	// roots
	for _, it := range frontier {
		key, _ := run(it.ops, 0)
		seen[key] = struct{}{}
	}
	timedOut := false
	depthDone := 0
	for depth := 1; depth <= job.Depth && !timedOut; depth++ {
		var next []item
		for fi, it := range frontier {
			for ai, sym := range p.Alphabet {
				if depth == 1 && job.Shards > 1 && (fi*len(p.Alphabet)+ai)%job.Shards != job.Shard {
					continue
				}
				if time.Now().After(deadline) {
					timedOut = true
					break
				}
				ops := append(append([]string(nil), it.ops...), sym)
				key, bad := run(ops, len(it.ops))
				if bad {
					continue // do not build on a state that already violates the property
				}
				if _, dup := seen[key]; dup {
					continue
				}
				seen[key] = struct{}{}
				next = append(next, item{ops})
			}
			if timedOut {
				break
			}
		}
		if !timedOut {
			depthDone = depth
		}
		frontier = next
		if len(frontier) == 0 {
			break
		}
	}
	res.States = int64(len(seen))
	res.BoundDone = depthDone
	res.Exhaustive = !timedOut
	if timedOut {
		res.Capped = fmt.Sprintf("wall-clock budget %ds reached at depth %d (completed depth %d)", job.BudgetS, depthDone+1, depthDone)
	}
	res.ByCost[fmt.Sprintf("depth<=%d", depthDone)] = res.Executions
	res.ObsHashes = nil
	for k := range seen {
		res.ObsHashes = append(res.ObsHashes, k[0])
		if len(res.ObsHashes) >= 2048 {
			break
		}
	}
	var sigs []string
	for sig := range viol {
		sigs = append(sigs, sig)
	}
	sort.Strings(sigs)
	for _, sig := range sigs {
		res.Violations = append(res.Violations, *viol[sig])
	}
}

// checkStats compares the recorder with the harness-side tallies after an op (C20).
func (s *seqRunner) checkStats(op string) {
	if s.r.Counter == nil {
		return
	}
	name := opName(op)
	st := s.r.Counter.Snapshot()
	cur := [6]uint64{st.Hits, st.Misses, st.Evictions, st.EvictionWeight, st.LoadSuccesses, st.LoadFailures}
	names := [6]string{"Hits", "Misses", "Evictions", "EvictionWeight", "LoadSuccesses", "LoadFailures"}
	for i := range cur {
		if cur[i] < s.prevStats[i] {
			s.fail("counter-decreased", names[i], "op %q decreased %s from %d to %d", op, names[i], s.prevStats[i], cur[i])
		}
	}
	s.prevStats = cur
	if st.Hits != s.expHits || st.Misses != s.expMisses {
		s.fail("lookup-count", name, "after op %q the recorder shows hits=%d misses=%d, the operations performed hits=%d misses=%d", op, st.Hits, st.Misses, s.expHits, s.expMisses)
		s.expHits, s.expMisses = st.Hits, st.Misses // report each divergence once
	}
	var ok, fail uint64
	for _, lc := range s.r.Loads {
		if lc.Err == "" || lc.Err == "notfound" {
			ok++
		} else {
			fail++
		}
	}
	if st.LoadSuccesses+st.LoadFailures != ok+fail {
		s.fail("load-count", name, "after op %q load successes+failures = %d+%d but the loader was invoked %d times", op, st.LoadSuccesses, st.LoadFailures, ok+fail)
	} else if st.LoadSuccesses != ok {
		s.fail("load-count", name, "after op %q load successes = %d, failures = %d; loader outcomes were %d ok, %d failed", op, st.LoadSuccesses, st.LoadFailures, ok, fail)
	}
	// evictions: every Overflow removal, nothing but Overflow/Expiration removals
	var over, overW, exp, expW uint64
	for _, e := range s.r.Atomic {
		switch e.Cause {
		case otter.CauseOverflow:
			over++
			overW += uint64(valWeightCfg(s.cfg, e.Val))
		case otter.CauseExpiration:
			exp++
			expW += uint64(valWeightCfg(s.cfg, e.Val))
		}
	}
	if !s.deferred || len(s.r.Deferred) == 0 {
		if st.Evictions < over || st.Evictions > over+exp || st.EvictionWeight < overW || st.EvictionWeight > overW+expW {
			s.fail("eviction-count", name, "after op %q evictions=%d weight=%d; removals reported: %d Overflow (weight %d), %d Expiration (weight %d)", op, st.Evictions, st.EvictionWeight, over, overW, exp, expW)
		}
	}
}

// seqReplay re-runs one recorded operation sequence with every oracle on and reports what it sees.
func seqReplay(res *Result, p seqParams, raw json.RawMessage, v *Violation) {
	var ops []string
	for _, op := range v.Ops {
		if op != "save; load" {
			ops = append(ops, op)
		}
	}
	for round := 0; round < 2; round++ {
		s := newSeqRunner(p.Cfg)
		s.probe = p.Probe
		s.track = strings.HasPrefix(p.Label, "scale:")
		var obs []string
		for i, op := range ops {
			s.step = i
			r := s.apply(op)
			obs = append(obs, fmt.Sprintf("%-28s clock=%d atomic=%v deletions=%v", r.String(), s.m.now, s.r.Atomic, s.r.Events))
			if p.Stats {
				s.checkStats(op)
			}
		}
		if p.Persist != nil {
			persistCheck(s, p.Persist, func(kind, subject, format string, args ...any) {
				s.disc = append(s.disc, seqDisc{Discrepancy{Kind: kind, Subject: subject, Detail: fmt.Sprintf(format, args...)}, len(ops)})
			})
		}
		res.Executions++
		if round == 0 {
			for _, d := range s.disc {
				res.Violations = append(res.Violations, Violation{Discrepancy: d.Discrepancy, Scenario: "cache.seq", Params: raw, Ops: ops, Obs: obs})
			}
			if len(s.disc) == 0 {
				res.Samples = append(res.Samples, map[string]any{"ops": ops, "observations": obs})
			}
		}
		s.close()
	}
}
