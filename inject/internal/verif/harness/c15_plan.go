package harness

import "fmt"

// hash helpers: h1 = hash >> 7 selects the bucket, h2 = hash & 0x7f is the meta byte.
func hsh(h1 uint64, h2 uint8) uint64 { return h1<<7 | uint64(h2&0x7f) }

func init() {
	plans["C15"] = func(thorough bool) []*Job {
		var jobs []*Job
		add := func(p c15Params, variant string, pb, shards, budget int, need ...string) {
			if variant == "small" {
				p.MinLen = 2
			} else {
				p.MinLen = 32
			}
			jobs = append(jobs, &Job{Scenario: "c15.hashmap", Params: js(p), Variant: variant, PB: pb, Shards: shards, BudgetS: budget, Terminat: true, Need: need})
		}
		// keys 0..5 collide in one chain with equal h2 (bucket 0 of any table size), 6..9 go to bucket 1
		same := []uint64{hsh(0, 5), hsh(0, 5), hsh(0, 5), hsh(0, 5), hsh(0, 5), hsh(0, 5), hsh(1, 7), hsh(1, 7), hsh(1, 8), hsh(1, 9), hsh(1, 10)}
		// spread: after growth 2->4 keys separate: h1 = 0,2 share bucket 0 in a 2-table but split in a 4-table
		spread := []uint64{hsh(0, 1), hsh(2, 2), hsh(4, 3), hsh(6, 4), hsh(0, 5), hsh(2, 6), hsh(1, 7), hsh(3, 8), hsh(1, 9), hsh(3, 10), hsh(5, 11), hsh(4, 12)} // key 11: even h1, bucket 0 of a 2-bucket table like keys 0-5
		fill8 := []string{"ins 0", "ins 1", "ins 2", "ins 3", "ins 4", "ins 6", "ins 7", "ins 8"}                                                                 // bucket 0 full (5), bucket 1 has 3: next insert into bucket 0 grows
		// parallel copy with a fan-out that does not divide the table: GOMAXPROCS answer 3, a 4-bucket table with 16
		// entries grows to 8 buckets (chunks = 3 in the small-scope build); keys 13-15 live in its last bucket
		wide := []uint64{hsh(0, 1), hsh(4, 2), hsh(8, 3), hsh(12, 4), hsh(16, 5), hsh(1, 6), hsh(5, 7), hsh(9, 8), hsh(13, 9), hsh(2, 10), hsh(6, 11), hsh(10, 12), hsh(14, 13), hsh(3, 14), hsh(7, 15), hsh(11, 16), hsh(20, 17)}
		var fill16 []string
		for k := 0; k < 16; k++ {
			fill16 = append(fill16, fmt.Sprintf("ins %d", k))
		}
		add(c15Params{Hashes: wide, Procs: 3, Setup: fill16, Threads: [][]string{{"ins 16", "get 13"}, {"get 15", "get 14"}}}, "small", 2, 8, 60, "grew")
		// a degenerate chain: 26 keys collide in one root bucket (five chained buckets) while the table grows around them;
		// holes are punched at every depth and refilled; every step is compared with a map natively, then two threads
		// insert into / read from the deep chain
		{
			deep := make([]uint64, 30)
			for i := range deep {
				deep[i] = hsh(0, 5)
			}
			var setup []string
			for k := 0; k < 25; k++ {
				setup = append(setup, fmt.Sprintf("ins %d", k))
			}
			for _, hole := range []int{2, 7, 12, 17, 22} {
				setup = append(setup, fmt.Sprintf("del %d", hole), "ins 25", "get 25", fmt.Sprintf("get %d", hole), "size", "del 25", fmt.Sprintf("ins %d", hole), fmt.Sprintf("get %d", hole))
			}
			setup = append(setup, "del 3", "del 13", "del 23", "range")
			for _, variant := range []string{"small", "native"} {
				add(c15Params{Hashes: deep, Setup: setup, Threads: [][]string{{"ins 26", "get 27"}, {"ins 27", "get 26", "ins 28"}}}, variant, 2, 8, 60)
			}
			// whole buckets in the middle of the chain are emptied (an empty overflow bucket is not the end of the chain):
			// iteration, size and lookups still see the keys behind them; then the holes are refilled
			var mid []string
			for k := 0; k < 25; k++ {
				mid = append(mid, fmt.Sprintf("ins %d", k))
			}
			for _, first := range []int{5, 15} {
				for k := first; k < first+5; k++ {
					mid = append(mid, fmt.Sprintf("del %d", k))
				}
				mid = append(mid, "range", "size", "get 4", "get 10", "get 14", "get 20", "get 24")
			}
			mid = append(mid, "range", "size")
			for _, variant := range []string{"small", "native"} {
				add(c15Params{Hashes: deep, Setup: mid, Threads: [][]string{{"range", "ins 6"}, {"ins 16", "get 24", "range"}}}, variant, 2, 8, 60)
			}
		}
		if !thorough {
			// H1: get / insert / delete / update in one chain incl. overflow bucket (6 colliding keys)
			add(c15Params{Hashes: same, Setup: []string{"ins 0", "ins 1", "ins 2", "ins 3", "ins 4"}, Threads: [][]string{{"ins 5", "get 0"}, {"del 0", "get 5"}, {"get 5", "get 0"}}}, "small", 2, 8, 60)
			add(c15Params{Hashes: same, Setup: []string{"ins 0", "ins 1"}, Threads: [][]string{{"ins 0", "del 1"}, {"ins 0", "nop 1"}, {"get 0", "get 1"}}}, "small", 2, 8, 60)
			// H2: an insert that grows the table || get/insert/delete/update
			add(c15Params{Hashes: spread, Setup: fill8, Threads: [][]string{{"ins 5"}, {"get 0", "get 5"}, {"del 1", "ins 9"}}}, "small", 2, 8, 60, "grew")
			add(c15Params{Hashes: spread, Setup: fill8, Threads: [][]string{{"ins 5"}, {"ins 0", "get 0"}, {"range"}}}, "small", 2, 8, 60, "grew")
			// H3: a delete that shrinks || insert/get
			add(c15Params{Hashes: spread, Setup: append(append([]string{}, fill8...), "ins 5", "del 0", "del 1", "del 2", "del 3", "del 4", "del 6", "del 7", "del 8"), Threads: [][]string{{"del 5"}, {"ins 1", "get 1"}, {"get 5", "ins 6"}}}, "small", 2, 8, 60, "shrank")
			// H4: Range || insert/delete/update
			add(c15Params{Hashes: same, Setup: []string{"ins 0", "ins 1", "ins 2"}, Threads: [][]string{{"range"}, {"del 1", "ins 3"}, {"ins 0"}}}, "small", 2, 8, 60)
			// H4b: a key deleted and re-inserted into a later bucket of the chain while Range walks it
			add(c15Params{Hashes: same, Setup: []string{"ins 0", "ins 1", "ins 2", "ins 3", "ins 4"}, Threads: [][]string{{"range"}, {"del 0", "ins 5", "ins 0"}}}, "small", 2, 8, 60)
			// H5: Clear || compute
			add(c15Params{Hashes: spread, Setup: []string{"ins 0", "ins 1"}, Threads: [][]string{{"clear"}, {"ins 2", "get 0"}, {"del 1", "get 2"}}}, "small", 2, 8, 60)
			// H6: two growers
			add(c15Params{Hashes: spread, Setup: fill8, Threads: [][]string{{"ins 5", "get 10"}, {"ins 10", "get 5"}}}, "small", 3, 8, 60, "grew")
			// two real growers: both insert into the full chain of bucket 0 and both decide to resize the same table
			add(c15Params{Hashes: spread, Setup: fill8, Threads: [][]string{{"ins 5", "get 11"}, {"ins 11", "get 5"}}}, "small", 2, 8, 60, "grew-twice")
			// a shrink decided on a table that a concurrent Clear / shrink has already replaced
			add(c15Params{Hashes: spread, Setup: append(append([]string{}, fill8...), "ins 5", "del 0", "del 1", "del 2", "del 3", "del 4", "del 6", "del 7"), Threads: [][]string{{"del 5", "get 9"}, {"del 8", "ins 9", "get 9"}}}, "small", 2, 8, 60, "shrank")
			return jobs
		}
		add(c15Params{Hashes: same, Setup: []string{"ins 0", "ins 1", "ins 2", "ins 3", "ins 4"}, Threads: [][]string{{"ins 5", "get 0"}, {"del 0", "get 5"}, {"get 5", "get 0"}}}, "small", 3, 16, 400)
		add(c15Params{Hashes: same, Setup: []string{"ins 0", "ins 1"}, Threads: [][]string{{"ins 0", "del 1"}, {"ins 0", "nop 1"}, {"get 0", "get 1"}}}, "small", 3, 16, 400)
		add(c15Params{Hashes: spread, Setup: fill8, Threads: [][]string{{"ins 5"}, {"get 0", "get 5"}, {"del 1", "ins 9"}}}, "small", 3, 16, 400, "grew")
		add(c15Params{Hashes: spread, Setup: fill8, Threads: [][]string{{"ins 5"}, {"ins 0", "get 0"}, {"range"}}}, "small", 3, 16, 400, "grew")
		add(c15Params{Hashes: spread, Setup: append(append([]string{}, fill8...), "ins 5", "del 0", "del 1", "del 2", "del 3", "del 4", "del 6", "del 7", "del 8"), Threads: [][]string{{"del 5"}, {"ins 1", "get 1"}, {"get 5", "ins 6"}}}, "small", 3, 16, 400, "shrank")
		add(c15Params{Hashes: same, Setup: []string{"ins 0", "ins 1", "ins 2"}, Threads: [][]string{{"range"}, {"del 1", "ins 3"}, {"ins 0"}}}, "small", 3, 16, 400)
		add(c15Params{Hashes: same, Setup: []string{"ins 0", "ins 1", "ins 2", "ins 3", "ins 4"}, Threads: [][]string{{"range"}, {"del 0", "ins 5", "ins 0"}, {"get 0"}}}, "small", 3, 16, 400)
		add(c15Params{Hashes: spread, Setup: []string{"ins 0", "ins 1"}, Threads: [][]string{{"clear"}, {"ins 2", "get 0"}, {"del 1", "get 2"}}}, "small", 3, 16, 400)
		add(c15Params{Hashes: spread, Setup: fill8, Threads: [][]string{{"ins 5", "get 10"}, {"ins 10", "get 5"}}}, "small", 4, 16, 400, "grew")
		add(c15Params{Hashes: spread, Setup: fill8, Threads: [][]string{{"ins 5", "get 11"}, {"ins 11", "get 5"}, {"get 5", "get 11"}}}, "small", 3, 16, 400, "grew-twice")
		add(c15Params{Hashes: spread, Setup: append(append([]string{}, fill8...), "ins 5", "del 0", "del 1", "del 2", "del 3", "del 4", "del 6", "del 7"), Threads: [][]string{{"del 5", "get 9"}, {"del 8", "ins 9", "get 9"}, {"clear", "ins 1"}}}, "small", 3, 16, 400, "shrank")
		// parallel copy path (chunks > 1): small variant has minBucketsPerGoroutine=1, Procs=2
		add(c15Params{Hashes: spread, Setup: fill8, Procs: 2, Threads: [][]string{{"ins 5"}, {"get 0", "ins 9"}}}, "small", 2, 16, 400, "grew")
		// native constants: 32-bucket table
		add(c15Params{Hashes: same, Setup: []string{"ins 0", "ins 1", "ins 2", "ins 3", "ins 4"}, Threads: [][]string{{"ins 5", "get 0"}, {"del 0", "get 5"}, {"range"}}}, "native", 2, 16, 400)
		return jobs
	}
}
