#!/bin/bash
# usage: tools/seqtry.sh <property> '<cfg json>' '<op>;<op>;...' [patch.diff]
# Runs one operation sequence on the real cache (E1 replay: model + oracles of <property> at every step) and prints the
# step-by-step outcome; with a patch, on a scratch worktree of /repo with the patch applied (removed afterwards).
set -u
prop=$1; cfg=$2; ops=$3; patch=${4:-}
export GOFLAGS=-mod=mod GOPROXY=off GOSUMDB=off GOTOOLCHAIN=local
if [ -n "$patch" ]; then
  WT=/tmp/seqtry-$$; git -C /repo worktree add -q --detach $WT HEAD || exit 3
  trap 'git -C /repo worktree remove --force '$WT'; rm -rf /tmp/seqtry-ev-'$$ EXIT
  git -C $WT apply "$patch" || exit 3
  export VERIF_REPO=$WT
fi
export VERIF_EVIDENCE_DIR=/tmp/seqtry-ev-$$ VERIF_REPLAY_DIR=/tmp/seqtry-ev-$$/rp
mkdir -p $VERIF_EVIDENCE_DIR
python3 - "$prop" "$cfg" "$ops" > $VERIF_EVIDENCE_DIR/replay.json <<'PY'
import json,sys
prop,cfg,ops=sys.argv[1:4]
ops=[o.strip() for o in ops.split(';') if o.strip()]
print(json.dumps({"property":prop,"job":{"property":prop,"scenario":"cache.seq","params":{"cfg":json.loads(cfg),"alphabet":ops,"probe":True},"variant":"native","depth":len(ops),"shards":1,"shard":0,"budget_s":60},"violation":{"kind":"try","subject":"try","ops":ops}}))
PY
/verif/bin/vcheck $prop --replay $VERIF_EVIDENCE_DIR/replay.json
