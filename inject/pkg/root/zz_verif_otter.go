//go:build verif

package otter

import (
	"math"
	"fmt"
	"sort"

	"github.com/maypok86/otter/v2/internal/deque"
	"github.com/maypok86/otter/v2/internal/generated/node"
)

// VerifSetBufferSizes overrides the GOMAXPROCS-derived buffer limits (call before constructing a cache).
func VerifSetBufferSizes(writeMax uint32, stripedMax int) {
	if writeMax > 0 {
		if writeMax < minWriteBufferSize {
			writeMax = minWriteBufferSize // a small-scope maximum below the code's own initial size is not a legal configuration
		}
		maxWriteBufferSize = writeMax
	}
	if stripedMax > 0 {
		maxStripedBufferSize = stripedMax
	}
}

// VerifBufferSizes reports the current limits.
func VerifBufferSizes() (uint32, int) { return maxWriteBufferSize, maxStripedBufferSize }

// VerifStatus is the maintenance-related state of a cache.
type VerifStatus struct {
	DrainStatus     uint32
	WriteBufferSize uint64
	ReadBufferLen   int
	InFlightCalls   int
	WithMaintenance bool
}

func (c *Cache[K, V]) VerifStatus() VerifStatus {
	cc := c.cache
	st := VerifStatus{DrainStatus: cc.drainStatus.Load(), WithMaintenance: cc.withMaintenance}
	if cc.withMaintenance {
		st.WriteBufferSize = cc.writeBuffer.Size()
		st.ReadBufferLen = cc.readBuffer.Len()
	}
	st.InFlightCalls = c.verifInFlight() // optional hook (zz_verif_opt_inflight.go): -1 when unavailable
	return st
}

// VerifNode is the canonical description of one table node.
type VerifNode[K comparable, V any] struct {
	Key           K
	Value         V
	Weight        uint32
	ExpiresAt     int64
	RefreshableAt int64
	State         string // alive | retired | dead | n/a
	Queue         string // window | probation | protected | n/a
}

func nodeState[K comparable, V any](c *cache[K, V], n node.Node[K, V]) string {
	if !c.withMaintenance {
		return "n/a"
	}
	switch {
	case n.IsAlive():
		return "alive"
	case n.IsRetired():
		return "retired"
	case n.IsDead():
		return "dead"
	}
	return "?"
}

func nodeQueue[K comparable, V any](c *cache[K, V], n node.Node[K, V]) string {
	if !c.withEviction {
		return "n/a"
	}
	switch {
	case n.InWindow():
		return "window"
	case n.InMainProbation():
		return "probation"
	case n.InMainProtected():
		return "protected"
	}
	return "?"
}

func (c *cache[K, V]) verifNode(n node.Node[K, V]) VerifNode[K, V] {
	vn := VerifNode[K, V]{Key: n.Key(), Value: n.Value(), Weight: n.Weight(), ExpiresAt: unreachableExpiresAt, RefreshableAt: unreachableRefreshableAt}
	if c.withExpiration {
		vn.ExpiresAt = n.ExpiresAt()
	}
	if c.withRefresh {
		vn.RefreshableAt = n.RefreshableAt()
	}
	vn.State = nodeState(c, n)
	vn.Queue = nodeQueue(c, n)
	return vn
}

// VerifSnapshot is a canonical dump of the behaviour-relevant state.
type VerifSnapshot[K comparable, V any] struct {
	Table                                                                     []VerifNode[K, V] // in table iteration order
	Window                                                                    []K
	Probation                                                                 []K
	Protected                                                                 []K
	Maximum, WeightedSize, WindowMax, WindowSize, ProtectedMax, ProtectedSize uint64
	Wheel                                                                     []string // "level/slot:key"
	WheelTime                                                                 uint64
	Status                                                                    VerifStatus
	Sketch                                                                    string
	Adjust                                                                    string
	SketchSize, SketchSample                                                  uint64 // increments since the last aging step / period
	PrevHitRate                                                               float64
	WriteBufferCap                                                            int
}

func (c *Cache[K, V]) VerifSnapshot() VerifSnapshot[K, V] {
	cc := c.cache
	var s VerifSnapshot[K, V]
	cc.hashmap.Range(func(n node.Node[K, V]) bool {
		s.Table = append(s.Table, cc.verifNode(n))
		return true
	})
	if cc.withEviction {
		c.verifPolicyDetails(&s) // optional hook (zz_verif_opt_policy.go)
	}
	if cc.withExpiration {
		cc.expirationPolicy.VerifWalk(func(level, slot int, n node.Node[K, V]) {
			s.Wheel = append(s.Wheel, fmt.Sprintf("%d/%d:%v", level, slot, n.Key()))
		}, func(string) {})
		sort.Strings(s.Wheel)
		s.WheelTime = cc.expirationPolicy.VerifTime()
	}
	s.Status = c.VerifStatus()
	return s
}

// VerifFinding is one audit discrepancy: Kind is a closed enumeration, Subject names the structure.
type VerifFinding struct {
	Kind, Subject, Detail string
}

// VerifAudit checks, at quiescence, that the policy bookkeeping agrees with the table.
// It must be called with no operation in flight.
func (c *Cache[K, V]) VerifAudit() (out []VerifFinding) {
	cc := c.cache
	add := func(kind, subject, format string, args ...any) {
		out = append(out, VerifFinding{kind, subject, fmt.Sprintf(format, args...)})
	}
	defer func() {
		if r := recover(); r != nil {
			add("audit-panic", "audit", "the audit itself panicked on the cache's internal structures: %v", r)
		}
	}()
	table := map[K]node.Node[K, V]{}
	cc.hashmap.Range(func(n node.Node[K, V]) bool {
		if _, dup := table[n.Key()]; dup {
			add("table-duplicate-key", "table", "key %v appears twice in the table", n.Key())
		}
		table[n.Key()] = n
		return true
	})
	if sz := cc.hashmap.Size(); sz != len(table) {
		add("size-mismatch", "EstimatedSize", "table size counter %d but %d nodes in the table", sz, len(table))
	}
	if !cc.withMaintenance {
		return out
	}
	st := c.VerifStatus()
	if st.WriteBufferSize != 0 {
		add("write-stranded", "write-buffer", "write buffer still holds %d events at quiescence (drain status %d)", st.WriteBufferSize, st.DrainStatus)
	} else if st.DrainStatus != idle {
		add("status-not-idle", "drain-status", "drain status is %d with an empty write buffer at quiescence", st.DrainStatus)
	}
	for k, n := range table {
		if !n.IsAlive() {
			add("non-alive-node-in-table", "table", "key %v: table node is %s", k, nodeState(cc, n))
		}
	}
	if cc.withEviction {
		p := cc.evictionPolicy
		inQueue := map[K]int{}
		var total uint64
		check := func(d *deque.Linked[K, V], name string, running uint64, hasRunning bool) {
			var sum uint64
			count := 0
			var prev node.Node[K, V]
			for n := range d.All() {
				count++
				if count > 100000 {
					add("deque-corrupt", name, "queue %s does not terminate", name)
					break
				}
				if !node.Equals(n.Prev(), prev) {
					add("deque-corrupt", name, "queue %s: prev pointer of %v does not match", name, n.Key())
				}
				prev = n
				inQueue[n.Key()]++
				sum += uint64(n.Weight())
				if nodeQueue(cc, n) != name {
					add("queue-type-mismatch", name, "key %v is linked in %s but marked %s", n.Key(), name, nodeQueue(cc, n))
				}
				tn, ok := table[n.Key()]
				switch {
				case !ok:
					add("dead-node-linked", name, "key %v (%s) is linked in %s but absent from the table", n.Key(), nodeState(cc, n), name)
				case tn.AsPointer() != n.AsPointer():
					add("dead-node-linked", name, "a stale node of key %v (%s) is linked in %s; the table holds a different node", n.Key(), nodeState(cc, n), name)
				case !n.IsAlive():
					add("dead-node-linked", name, "key %v is linked in %s in state %s", n.Key(), name, nodeState(cc, n))
				}
			}
			if !node.Equals(d.Tail(), prev) {
				add("deque-corrupt", name, "queue %s: tail does not match the last node reached from head", name)
			}
			if count != d.Len() {
				add("deque-len-mismatch", name, "queue %s has %d linked nodes but len %d", name, count, d.Len())
			}
			if hasRunning && sum != running {
				add("queue-weight-mismatch", name, "queue %s holds weight %d but its running total is %d", name, sum, running)
			}
			total += sum
		}
		check(p.window, "window", p.windowWeightedSize, true)
		check(p.probation, "probation", 0, false)
		check(p.protected, "protected", p.mainProtectedWeightedSize, true)
		if total != p.weightedSize {
			add("queue-weight-mismatch", "total", "queues hold weight %d but weightedSize is %d", total, p.weightedSize)
		}
		for k, n := range table {
			switch inQueue[k] {
			case 0:
				add("alive-node-unlinked", "eviction-policy", "key %v (%s, queue %s) is in the table but in no policy queue", k, nodeState(cc, n), nodeQueue(cc, n))
			case 1:
			default:
				add("node-linked-twice", "eviction-policy", "key %v is linked %d times in the policy queues", k, inQueue[k])
			}
		}
	}
	if cc.withExpiration {
		inWheel := map[K]int{}
		cc.expirationPolicy.VerifWalk(func(level, slot int, n node.Node[K, V]) {
			inWheel[n.Key()]++
			tn, ok := table[n.Key()]
			switch {
			case !ok:
				add("dead-node-linked", "timer-wheel", "key %v (%s) is in the timer wheel %d/%d but absent from the table", n.Key(), nodeState(cc, n), level, slot)
			case tn.AsPointer() != n.AsPointer():
				add("dead-node-linked", "timer-wheel", "a stale node of key %v (%s) is in the timer wheel; the table holds a different node", n.Key(), nodeState(cc, n))
			}
		}, func(msg string) { add("wheel-corrupt", "timer-wheel", "%s", msg) })
		for k, n := range table {
			switch inWheel[k] {
			case 0:
				if n.ExpiresAt() == math.MaxInt64 {
					continue // no deadline: nothing for the expiration policy to do (upstream links such entries, but need not)
				}
				add("alive-node-unlinked", "timer-wheel", "key %v (%s, expiresAt %d) is in the table but has no timer", k, nodeState(cc, n), n.ExpiresAt())
			case 1:
			default:
				add("node-linked-twice", "timer-wheel", "key %v has %d timers", k, inWheel[k])
			}
		}
	}
	if st.InFlightCalls > 0 {
		add("inflight-left", "singleflight", "%d in-flight load records remain at quiescence", st.InFlightCalls)
	}
	return out
}

// VerifPolicyRand replaces the admission jitter source.
func (c *Cache[K, V]) VerifPolicyRand(f func() uint32) {
	if c.cache.withEviction {
		c.cache.evictionPolicy.rand = f
	}
}

// VerifSetSampleSize shrinks the sketch's sample period (normally ten times the capacity, at least 10), so that
// the hill climber's adjustments come within reach of a bounded exploration. Small-scope reduction only: the
// climber code that runs is the real one. Must be called with no operation in flight.
func (c *Cache[K, V]) VerifSetSampleSize(n uint64) {
	if c.cache.withEviction && !c.cache.evictionPolicy.sketch.isNotInitialized() {
		c.cache.evictionPolicy.sketch.sampleSize = n
	}
}

// VerifMaximum reads the policy maximum without running maintenance (GetMaximum may run it).
func (c *Cache[K, V]) VerifMaximum() uint64 {
	if !c.cache.withEviction {
		return ^uint64(0)
	}
	return c.cache.evictionPolicy.maximum
}

// VerifNew is New without runtime.AddCleanup: cleanups delay the release of every cache by one
// more GC cycle, which matters when millions of short-lived caches are explored.
func VerifNew[K comparable, V any](o *Options[K, V]) (*Cache[K, V], error) {
	if o == nil {
		o = &Options[K, V]{}
	}
	if err := o.validate(); err != nil {
		return nil, err
	}
	return &Cache[K, V]{cache: newCache(o)}, nil
}

// ---- C18: sketch and admission exports ----

// VerifSketch wraps the private count-min sketch.
type VerifSketch struct{ s *sketch[int] }

func VerifNewSketch() *VerifSketch             { return &VerifSketch{s: newSketch[int]()} }
func (v *VerifSketch) EnsureCapacity(c uint64) { v.s.ensureCapacity(c) }
func (v *VerifSketch) Increment(k int)         { v.s.increment(k) }
func (v *VerifSketch) Frequency(k int) uint64  { return v.s.frequency(k) }
func (v *VerifSketch) Reset()                  { v.s.reset() }
func (v *VerifSketch) Size() uint64            { return v.s.size }
func (v *VerifSketch) SampleSize() uint64      { return v.s.sampleSize }
func (v *VerifSketch) TableLen() int           { return len(v.s.table) }
func (v *VerifSketch) NotInitialized() bool    { return v.s.isNotInitialized() }

// VerifSketchPositions returns the block and the four (slot, counter index) pairs a raw hash maps to.
func VerifSketchPositions(raw uint64, tableLen int) (block uint64, pos [4][2]uint64) {
	blockMask := (uint64(tableLen) >> 3) - 1
	blockHash := spread(raw)
	counterHash := rehash(blockHash)
	block = (blockHash & blockMask) << 3
	for i := uint64(0); i < 4; i++ {
		h := counterHash >> (i << 3)
		pos[i] = [2]uint64{block + (h & 1) + (i << 1), (h >> 1) & 15}
	}
	return block, pos
}

// VerifAdmit evaluates the admission decision of a policy whose sketch holds the given frequencies.
type VerifPolicy struct{ p *policy[int, int] }

func VerifNewPolicy(capacity uint64) *VerifPolicy {
	p := newPolicy[int, int](false)
	p.sketch.ensureCapacity(capacity)
	return &VerifPolicy{p: p}
}
func (v *VerifPolicy) Increment(k int)        { v.p.sketch.increment(k) }
func (v *VerifPolicy) Frequency(k int) uint64 { return v.p.sketch.frequency(k) }
func (v *VerifPolicy) Admit(candidate, victim int, rand uint32) bool {
	v.p.rand = func() uint32 { return rand }
	return v.p.admit(candidate, victim)
}

// VerifRawTable dumps the table without any side effect (Cache.All schedules maintenance when it meets a
// dead or expired node, which would perturb the very state under observation).
func (c *Cache[K, V]) VerifRawTable() []VerifNode[K, V] {
	var out []VerifNode[K, V]
	c.cache.hashmap.Range(func(n node.Node[K, V]) bool {
		out = append(out, c.cache.verifNode(n))
		return true
	})
	return out
}

// VerifTableResizes reports (growths, shrinks) of the key index.
func (c *Cache[K, V]) VerifTableResizes() (int64, int64) { return c.cache.hashmap.VerifResizes() }
