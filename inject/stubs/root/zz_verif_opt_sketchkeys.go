//go:build verif

package otter

// Stubs of the optional key-type probes: not available on this tree.
func VerifSketchFloatProbe(capacity uint64, seq []float64, ask float64) (freq uint64, ok bool) {
	return 0, false
}

func VerifSketchIfaceProbe(capacity uint64, seq []any, ask any) (freq uint64, ok bool) {
	return 0, false
}
