//go:build verif

package otter

// Stub of the optional policy-details hook: nothing is known about the policy's private state.
func (c *Cache[K, V]) verifPolicyDetails(s *VerifSnapshot[K, V]) {}
