//go:build verif

package lossy

import (
	"slices"

	"github.com/maypok86/otter/v2/internal/verif/vsched"
)

// VerifStripes reports the current number of stripes (0 before first use).
func (s *Striped[K, V]) VerifStripes() int {
	bs := s.striped.Load()
	if bs == nil {
		return 0
	}
	return bs.len
}

// VerifBufferSize reports the ring capacity of this build.
func VerifBufferSize() int { return bufferSize }

// VerifDouble doubles the stripe table the way expandOrRetry does after two failed CASes of one Add (same copy,
// same publication), so that scenarios can start from the reachable states with empty stripes between rings
// without spending four preemptions on getting there. No-op before first use or at the maximum length.
func (s *Striped[K, V]) VerifDouble() bool {
	// like expandOrRetry: the table is replaced under the busy flag
	for !(s.busy.Load() == 0 && s.busy.CompareAndSwap(0, 1)) {
		vsched.Yield()
	}
	defer s.busy.Store(0)
	bs := s.striped.Load()
	if bs == nil || bs.len >= s.maxLen {
		return false
	}
	length := bs.len << 1
	// (the element type is sync/atomic's Pointer or the scheduler's shim, depending on the build: inferred)
	st := &striped[K, V]{
		buffers: slices.Grow(bs.buffers[:0:0], length)[:length],
		len:     length,
	}
	for j := 0; j < bs.len; j++ {
		st.buffers[j].Store(bs.buffers[j].Load())
	}
	s.striped.Store(st)
	return true
}

// VerifLayout reports which stripes have a ring attached.
func (s *Striped[K, V]) VerifLayout() []bool {
	bs := s.striped.Load()
	if bs == nil {
		return nil
	}
	out := make([]bool, bs.len)
	for i := range out {
		out[i] = bs.buffers[i].Load() != nil
	}
	return out
}
