package harness

func init() {
	plans["C14"] = func(thorough bool) []*Job {
		var jobs []*Job
		add := func(label string, cfg CacheCfg, setup []string, threads [][]string, variant string, pb, shards, budget int) {
			cfg.Executor = "default"
			p := concParams{Label: label, Cfg: cfg, Setup: setup, Threads: threads, Oracles: []string{"strand"}}
			jobs = append(jobs, &Job{Scenario: "cache.conc", Params: js(p), Variant: variant, PB: pb, Shards: shards, BudgetS: budget, Terminat: true})
		}
		two := []string{"set 1", "set 2"}
		pbW1, pbRest, budget := 2, 1, 90
		if thorough {
			pbW1, pbRest, budget = 3, 2, 600
		}
		// W1 Set || Set
		add("Set‖Set", CacheCfg{MaxSize: 2}, two, [][]string{{"set 1"}, {"set 3"}}, "native", pbW1, 16, budget)
		// W2 Set || Set || GetIfPresent
		add("Set‖Set‖Get", CacheCfg{MaxSize: 2}, two, [][]string{{"set 1"}, {"set 3"}, {"get 2"}}, "native", pbRest, 16, budget)
		// W3 Set || CleanUp
		add("Set‖CleanUp", CacheCfg{MaxSize: 2}, two, [][]string{{"set 3"}, {"cleanup"}}, "native", pbW1, 16, budget)
		// W4 write buffer full -> caller-runs fallback (retries 2 in the small variant, buffer max 4)
		add("Set‖Set(buffer-full)", CacheCfg{MaxSize: 8, WriteMax: 4}, nil, [][]string{{"set 1", "set 2", "set 3"}, {"set 4", "set 5", "set 6"}}, "small", pbRest, 16, budget)
		// the buffer fills up while an iteration holds the eviction lock; the writer that finds it full assists (runs the
		// maintenance itself) and a late writer arrives during that assisted run
		add("Coldest‖Sets(buffer-full, assist)‖Set", CacheCfg{MaxSize: 8, WriteMax: 4}, two, [][]string{{"coldest", "set 8"}, {"set 3", "set 4", "set 5", "set 6", "set 7"}}, "small", 2, 16, budget)
		// W5 other holders of the eviction lock
		add("Set‖InvalidateAll", CacheCfg{MaxSize: 5}, two, [][]string{{"set 1"}, {"invall"}}, "native", pbRest, 16, budget)
		add("Set‖Coldest", CacheCfg{MaxSize: 5}, two, [][]string{{"set 1"}, {"coldest"}}, "native", pbRest, 16, budget)
		add("Set‖Hottest", CacheCfg{MaxSize: 5}, two, [][]string{{"set 1"}, {"hottest"}}, "native", pbRest, 16, budget)
		add("Set‖GetMaximum", CacheCfg{MaxSize: 5}, two, [][]string{{"set 1"}, {"getmax"}}, "native", pbRest, 16, budget)
		add("Set‖WeightedSize", CacheCfg{MaxWeight: 5}, two, [][]string{{"set 1"}, {"wsize"}}, "native", pbRest, 16, budget)
		add("Set‖SetMaximum", CacheCfg{MaxSize: 5}, two, [][]string{{"set 3"}, {"setmax 1"}}, "native", pbRest, 16, budget)
		add("Invalidate‖Set", CacheCfg{MaxSize: 2}, two, [][]string{{"inv 1"}, {"set 3"}}, "native", pbRest, 16, budget)
		// other kinds of writers against the lock holders; the snapshot writer (iterates under the lock)
		add("Compute‖InvalidateAll", CacheCfg{MaxSize: 5}, two, [][]string{{"cw 1"}, {"invall"}}, "native", pbRest, 16, budget)
		add("Invalidate‖GetMaximum", CacheCfg{MaxSize: 5}, two, [][]string{{"inv 1"}, {"getmax"}}, "native", pbRest, 16, budget)
		add("Load‖Coldest", CacheCfg{MaxSize: 5}, two, [][]string{{"load 3 val"}, {"coldest"}}, "native", pbRest, 16, budget)
		add("ComputeIfAbsent‖WeightedSize", CacheCfg{MaxWeight: 5}, two, [][]string{{"cia 3"}, {"wsize"}}, "native", pbRest, 16, budget)
		add("Set‖Save", CacheCfg{MaxSize: 5}, two, [][]string{{"set 1"}, {"save"}}, "native", pbRest, 16, budget)
		add("Set‖SetMaximum(grow)", CacheCfg{MaxSize: 2}, two, [][]string{{"set 3"}, {"setmax 9"}}, "native", pbRest, 16, budget)
		add("Set‖CleanUp‖Set", CacheCfg{MaxSize: 2}, two, [][]string{{"set 3"}, {"cleanup"}, {"set 1"}}, "native", pbRest, 16, budget)
		add("Set‖Set(expiring)", CacheCfg{MaxSize: 2, Expiry: "writing", TTL: 100}, two, [][]string{{"set 1"}, {"set 3"}}, "native", pbRest, 16, budget)
		// a read that finds the read buffer full asks for a drain (ring of 4 in the small-scope build)
		add("Gets(full read buffer)‖Set", CacheCfg{MaxSize: 2}, two, [][]string{{"get 1", "get 1", "get 1", "get 1", "get 1"}, {"set 3"}}, "small", pbRest, 16, budget)
		// systematic matrix: every kind of writer against every holder of the eviction lock, and writer pairs
		writers := []string{"set 1", "set 3", "inv 1", "cw 1", "ci 2", "sia 3", "load 3 val"}
		holders := []string{"invall", "coldest", "hottest", "coldest1", "hottest1", "getmax", "setmax 1", "setmax 9", "cleanup", "save"}
		for _, w := range writers {
			for _, h := range holders {
				add("matrix:"+w+"‖"+h, CacheCfg{MaxSize: 2}, two, [][]string{{w}, {h}}, "native", pbRest, 4, budget)
			}
		}
		for i, w := range writers {
			for _, v := range writers[i:] {
				add("matrix:"+w+"‖"+v, CacheCfg{MaxSize: 2}, two, [][]string{{w}, {v}}, "native", pbRest, 4, budget)
			}
		}
		// triples: two writers and a holder of the eviction lock (the second writer arrives while the first one's failed
		// hand-off is being made good), and three writers
		tw := []string{"set 1", "set 3", "inv 1"}
		th := []string{"invall", "coldest", "cleanup"}
		if thorough {
			tw = append(tw, "cw 1")
			th = append(th, "setmax 1", "getmax")
		}
		for i, w := range tw {
			for _, v := range tw[i:] {
				for _, h := range th {
					add("triple:"+w+"‖"+v+"‖"+h, CacheCfg{MaxSize: 2}, two, [][]string{{w}, {v}, {h}}, "native", 1, 4, 2*budget)
				}
				for _, u := range tw {
					if u >= v {
						add("triple:"+w+"‖"+v+"‖"+u, CacheCfg{MaxSize: 2}, two, [][]string{{w}, {v}, {u}}, "native", 1, 4, 2*budget)
					}
				}
			}
		}
		if thorough {
			add("Coldest‖Sets(buffer-full, assist)‖Set/3", CacheCfg{MaxSize: 8, WriteMax: 4}, two, [][]string{{"coldest"}, {"set 3", "set 4", "set 5", "set 6", "set 7"}, {"set 8"}}, "small", 2, 16, budget)
			add("Set‖Set(expiry)", CacheCfg{MaxSize: 2, Expiry: "writing", TTL: 100}, two, [][]string{{"set 1"}, {"set 3"}}, "native", 2, 16, budget)
			add("Set;Set‖Set", CacheCfg{MaxSize: 2}, two, [][]string{{"set 1", "set 4"}, {"set 3"}}, "native", 2, 16, budget)
		}
		return jobs
	}
}
