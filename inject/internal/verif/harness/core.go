// Package harness contains the exploration engines (E2: controlled-scheduler
// DFS, E1: sequential explicit-state BFS), the oracles and every scenario.
package harness

import (
	"encoding/json"
	"fmt"
	"hash/fnv"
	"runtime"
	"sort"
	"strings"
	"sync"
	"sync/atomic"
	"time"

	"github.com/maypok86/otter/v2/internal/verif/vdet"
	"github.com/maypok86/otter/v2/internal/verif/vsched"
)

// Discrepancy is one oracle failure. Signature = property/kind/subject.
type Discrepancy struct {
	Kind    string `json:"kind"`
	Subject string `json:"subject"`
	Detail  string `json:"detail"`
}

// Violation is a discrepancy with the execution that produced it.
type Violation struct {
	Discrepancy
	Scenario string          `json:"scenario"`
	Params   json.RawMessage `json:"params,omitempty"`
	Choices  []uint8         `json:"choices,omitempty"` // E2 schedule
	Ops      []string        `json:"ops,omitempty"`     // E1 operation sequence
	Cost     int             `json:"cost"`
	Obs      []string        `json:"observations,omitempty"`
	Trace    []string        `json:"trace,omitempty"`
}

// Exec is the per-execution context handed to a scenario body.
type Exec struct {
	sched    *vsched.Sched
	prefix   []uint8
	Obs      []string
	Disc     []Discrepancy
	Counters map[string]int
	Coarse   bool
	Horizon  int
	Starve   int
	Trace    bool
	// TerminationPromised: deadlock/livelock are violations of the property under check.
	TerminationPromised bool
	outcome             string
	ran                 bool
}

func (x *Exec) Obsf(format string, args ...any) {
	lockFree()
	defer unlockFree()
	x.Obs = append(x.Obs, fmt.Sprintf(format, args...))
}

func (x *Exec) Fail(kind, subject, format string, args ...any) {
	lockFree()
	defer unlockFree()
	x.Disc = append(x.Disc, Discrepancy{Kind: kind, Subject: subject, Detail: fmt.Sprintf(format, args...)})
}

func (x *Exec) Count(name string) {
	lockFree()
	defer unlockFree()
	if x.Counters == nil {
		x.Counters = map[string]int{}
	}
	x.Counters[name]++
}

// Now returns a logical timestamp (monotone across threads) for histories.
func (x *Exec) Now() int64 {
	if vsched.FreeRunning {
		return freeClock.Add(1)
	}
	if x.sched != nil {
		return x.sched.Now()
	}
	return 0
}

var freeClock atomic.Int64

// harnessMu protects the harness's own bookkeeping in the free-running race pass (under the
// cooperative scheduler only one thread runs at a time and no lock is needed).
var harnessMu sync.Mutex

func lockFree() {
	if vsched.FreeRunning {
		harnessMu.Lock()
	}
}

func unlockFree() {
	if vsched.FreeRunning {
		harnessMu.Unlock()
	}
}

// Threads runs the bodies as managed threads to completion. It returns false
// when the execution got stuck (deadlock, livelock, horizon): the scenario
// must then skip its quiescence oracle.
func (x *Exec) Threads(bodies ...func()) bool {
	if x.ran {
		panic("harness: Threads called twice in one execution")
	}
	x.ran = true
	if vsched.FreeRunning {
		// race pass: real goroutines, real primitives, no scheduler
		x.sched = vsched.New(nil, 0)
		var wg sync.WaitGroup
		for _, b := range bodies {
			wg.Add(1)
			go func(b func()) {
				defer wg.Done()
				defer func() { _ = recover() }()
				b()
			}(b)
		}
		wg.Wait()
		vsched.FreeWait()
		x.outcome = vsched.OutcomeOK
		return true
	}
	s := vsched.New(x.prefix, x.Horizon)
	s.Coarse = x.Coarse
	s.StarveCap = x.Starve
	if x.Trace {
		s.EnableTrace()
	}
	x.sched = s
	x.outcome = s.Run(bodies...)
	for _, p := range s.Panics {
		x.Fail("panic", "thread", "%s", p)
	}
	if len(s.Panics) > 0 && x.outcome == vsched.OutcomeOK {
		x.Obsf("outcome=panic")
		return false
	}
	if x.outcome != vsched.OutcomeOK {
		x.Obsf("outcome=%s %s", x.outcome, s.StuckInfo)
		return false
	}
	return true
}

// Scenario is one closed harness.
type Scenario struct {
	Name string
	// Body runs exactly one execution: native set-up, x.Threads(...), oracle.
	Body func(x *Exec, params json.RawMessage)
	// Seq runs an E1 exploration and fills the result itself.
	Seq func(r *Result, params json.RawMessage, job *Job)
}

var scenarios = map[string]*Scenario{}

func Register(s *Scenario) { scenarios[s.Name] = s }

// Job is a unit of work handed to a worker process.
type Job struct {
	Property string          `json:"property"`
	Scenario string          `json:"scenario"`
	Params   json.RawMessage `json:"params,omitempty"`
	Variant  string          `json:"variant"`         // instrumentation variant: native | small
	PB       int             `json:"pb"`              // preemption bound (E2)
	EB       int             `json:"eb"`              // environment deviation bound (E2)
	Depth    int             `json:"depth,omitempty"` // sequence depth (E1)
	Shards   int             `json:"shards"`          // how many worker processes may share it
	Shard    int             `json:"shard"`
	BudgetS  int             `json:"budget_s"` // wall-clock cap; reaching it ends the job with exhaustive=false
	Coarse   bool            `json:"coarse,omitempty"`
	Horizon  int             `json:"horizon,omitempty"`
	Starve   int             `json:"starve,omitempty"` // starvation deviation: a continued spinner keeps spinning for up to this many yields
	Terminat bool            `json:"termination_promised,omitempty"`
	MinObs   int             `json:"min_obs,omitempty"` // vacuity: minimum distinct observations expected
	Need     []string        `json:"need,omitempty"`    // vacuity: counters that must be > 0
	Replay   *Violation      `json:"replay,omitempty"`
	Race     int             `json:"race,omitempty"` // >0: free-running race pass with this many repetitions (no scheduler)
}

// Result is what a worker reports for one job shard.
type Result struct {
	Job          *Job             `json:"job"`
	Engine       string           `json:"engine"`
	Executions   int              `json:"executions"`
	Steps        int64            `json:"steps"`
	TreeNodes    int64            `json:"tree_nodes"`
	States       int64            `json:"states"` // E1: distinct canonical states
	ByCost       map[string]int   `json:"by_cost"`
	BoundDone    int              `json:"bound_done"` // largest (pb+eb) budget level completed, -1 if none
	Exhaustive   bool             `json:"exhaustive"`
	Capped       string           `json:"capped,omitempty"`
	ObsHashes    []uint64         `json:"obs_hashes,omitempty"`
	Counters     map[string]int   `json:"counters,omitempty"`
	Stuck        int              `json:"stuck"`
	StuckSample  string           `json:"stuck_sample,omitempty"`
	Violations   []Violation      `json:"violations,omitempty"`
	ViolCount    map[string]int   `json:"violation_counts,omitempty"`
	Samples      []map[string]any `json:"samples,omitempty"`
	Infra        string           `json:"infra,omitempty"`
	WallS        float64          `json:"wall_s"`
	MaxPoints    int              `json:"max_points"`
	SelfCheckRun int              `json:"selfcheck_runs"`
}

func hashObs(obs []string) uint64 {
	h := fnv.New64a()
	for _, o := range obs {
		h.Write([]byte(o))
		h.Write([]byte{0})
	}
	return h.Sum64()
}

type explorer struct {
	sc       *Scenario
	job      *Job
	res      *Result
	deadline time.Time
	obsSet   map[uint64]struct{}
	level1   int
	timedOut bool
	viol     map[string]*Violation // by signature kind/subject: cheapest
	maxPB    int
	maxEB    int
}

// Progress counts completed executions / transitions (watched by the worker's watchdog).
var Progress atomic.Int64

// OtterFrames keeps the stack lines that mention otter's own code.
func OtterFrames(stack string) string {
	var out []string
	lines := strings.Split(stack, "\n")
	for i, l := range lines {
		if strings.HasPrefix(l, "github.com/maypok86/otter/v2") && !strings.Contains(l, "/internal/verif/") {
			out = append(out, l)
			if i+1 < len(lines) {
				out = append(out, lines[i+1])
			}
		}
		if len(out) > 24 {
			break
		}
	}
	return strings.Join(out, "\n")
}

// runOnce performs one execution with the given choice prefix.
func (e *explorer) runOnce(prefix []uint8, trace bool) *Exec {
	defer Progress.Add(1)
	vdet.Reset()
	x := &Exec{prefix: prefix, Coarse: e.job.Coarse, Horizon: e.job.Horizon, Starve: e.job.Starve, Trace: trace, TerminationPromised: e.job.Terminat}
	func() {
		defer func() {
			if r := recover(); r != nil {
				buf := make([]byte, 4096)
				n := runtime.Stack(buf, false)
				lines := strings.Split(string(buf[:n]), "\n")
				if len(lines) > 30 {
					lines = lines[:30]
				}
				x.Fail("panic", "native", "panic outside the scheduled threads (set-up or oracle phase): %v\n%s", r, strings.Join(lines, "\n"))
			}
		}()
		e.sc.Body(x, e.job.Params)
	}()
	if x.sched == nil {
		x.Fail("infra", "scenario", "scenario body never called Threads")
		return x
	}
	if x.sched.Diverged != "" {
		x.Fail("infra", "divergence", "%s", x.sched.Diverged)
	}
	if x.outcome != vsched.OutcomeOK && x.outcome != "" {
		if x.TerminationPromised {
			x.Fail(x.outcome, "termination", "execution stuck: %s %s", x.outcome, x.sched.StuckInfo)
		}
	}
	return x
}

func costOf(points []vsched.ChoicePoint, upto int) (pb, eb int) {
	for i := 0; i < upto; i++ {
		p, e := points[i].Cost(points[i].Chosen)
		pb += p
		eb += e
	}
	return
}

func (e *explorer) explore(prefix []uint8, depth int) {
	if e.timedOut {
		return
	}
	if time.Now().After(e.deadline) {
		e.timedOut = true
		return
	}
	x := e.runOnce(prefix, false)
	s := x.sched
	if s == nil {
		// the scenario body failed before starting its threads (set-up panic): report and stop
		for _, d := range x.Disc {
			sig := d.Kind + "/" + d.Subject
			e.res.ViolCount[sig]++
			if e.viol[sig] == nil {
				e.viol[sig] = &Violation{Discrepancy: d, Scenario: e.sc.Name, Params: e.job.Params, Choices: prefix, Obs: x.Obs}
			}
		}
		e.res.Capped = "scenario set-up failed"
		e.timedOut = true
		return
	}
	counted := !(depth == 0 && e.job.Shard != 0)
	pts := s.Points
	if counted {
		e.res.Executions++
		e.res.Steps += int64(s.Steps)
		if len(pts) > e.res.MaxPoints {
			e.res.MaxPoints = len(pts)
		}
		e.res.TreeNodes += int64(len(pts) - len(prefix) + 1)
		pb, eb := costOf(pts, len(pts))
		e.res.ByCost[fmt.Sprintf("pb%d_eb%d", pb, eb)]++
		e.obsSet[hashObs(x.Obs)] = struct{}{}
		for k, v := range x.Counters {
			e.res.Counters[k] += v
		}
		if x.outcome != vsched.OutcomeOK {
			e.res.Stuck++
			if e.res.StuckSample == "" {
				e.res.StuckSample = fmt.Sprintf("%s %s choices=%v", x.outcome, s.StuckInfo, choicesOf(pts))
			}
		}
		if len(e.res.Samples) < 3 && (e.res.Executions == 1 || e.res.Executions == 7 || e.res.Executions == 50) {
			e.res.Samples = append(e.res.Samples, map[string]any{"choices": choicesOf(pts), "observations": x.Obs, "steps": s.Steps})
		}
		if len(x.Disc) > 0 {
			pb, eb := costOf(pts, len(pts))
			for _, d := range x.Disc {
				sig := d.Kind + "/" + d.Subject
				e.res.ViolCount[sig]++
				old := e.viol[sig]
				if old == nil || pb+eb < old.Cost || (pb+eb == old.Cost && len(pts) < len(old.Choices)) {
					e.viol[sig] = &Violation{Discrepancy: d, Scenario: e.sc.Name, Params: e.job.Params, Choices: choicesOf(pts), Cost: pb + eb, Obs: x.Obs}
				}
			}
		}
	}
	if len(pts) < len(prefix) {
		return
	}
	if e.res.Stuck > 50 {
		e.res.Capped = "more than 50 stuck executions"
		e.timedOut = true
		return
	}
	// children: deviate at one later point
	pbUsed, ebUsed := costOf(pts, len(prefix))
	for i := len(prefix); i < len(pts); i++ {
		p := pts[i]
		for alt := uint8(1); alt < p.N; alt++ {
			cp, ce := p.Cost(alt)
			if pbUsed+cp > e.maxPB || ebUsed+ce > e.maxEB {
				continue
			}
			if depth == 0 {
				idx := e.level1
				e.level1++
				if e.job.Shards > 1 && idx%e.job.Shards != e.job.Shard {
					continue
				}
			}
			child := make([]uint8, i+1)
			for j := 0; j < i; j++ {
				child[j] = pts[j].Chosen
			}
			child[i] = alt
			e.explore(child, depth+1)
			if e.timedOut {
				return
			}
		}
		cp, ce := p.Cost(p.Chosen)
		pbUsed += cp
		ebUsed += ce
	}
}

func choicesOf(pts []vsched.ChoicePoint) []uint8 {
	out := make([]uint8, len(pts))
	for i, p := range pts {
		out[i] = p.Chosen
	}
	return out
}

// RunJob executes one job shard.
func RunJob(job *Job) *Result {
	start := time.Now()
	res := &Result{Job: job, ByCost: map[string]int{}, Counters: map[string]int{}, ViolCount: map[string]int{}, BoundDone: -1}
	defer func() { res.WallS = time.Since(start).Seconds() }()
	sc := scenarios[job.Scenario]
	if sc == nil {
		res.Infra = "unknown scenario " + job.Scenario
		return res
	}
	if job.BudgetS <= 0 {
		job.BudgetS = 60
	}
	if job.Shards <= 0 {
		job.Shards = 1
	}
	if sc.Seq != nil {
		res.Engine = "E1-seq"
		sc.Seq(res, job.Params, job)
		return res
	}
	res.Engine = "E2-sched"
	e := &explorer{sc: sc, job: job, res: res, deadline: start.Add(time.Duration(job.BudgetS) * time.Second), obsSet: map[uint64]struct{}{}, viol: map[string]*Violation{}}
	if job.Replay != nil {
		replay(e, job.Replay)
		return res
	}
	if job.Race > 0 {
		// side condition, not a verdict: the same bodies free-running under the race detector
		res.Engine = "race-pass"
		vsched.FreeRunning = true
		for i := 0; i < job.Race && time.Now().Before(e.deadline); i++ {
			e.runOnce(nil, false)
			// the oracle phase (post operations, CleanUp) may have started maintenance goroutines of its own: they must be
			// gone before the next repetition resets the determinism seams (otherwise the harness races with itself)
			vsched.FreeWait()
			res.Executions++
		}
		vsched.FreeRunning = false
		res.Exhaustive = false
		res.Capped = "free-running sampling (side condition only)"
		return res
	}
	e.maxPB, e.maxEB = job.PB, job.EB
	e.explore(nil, 0)
	res.Exhaustive = !e.timedOut
	if e.timedOut && res.Capped == "" {
		res.Capped = fmt.Sprintf("wall-clock budget %ds reached", job.BudgetS)
	}
	if res.Exhaustive {
		res.BoundDone = job.PB
	}
	for h := range e.obsSet {
		res.ObsHashes = append(res.ObsHashes, h)
		if len(res.ObsHashes) >= 4096 {
			break
		}
	}
	// confirm each violation: it must reproduce 5/5 from its recorded choices with identical observations
	var sigs []string
	for sig := range e.viol {
		sigs = append(sigs, sig)
	}
	sort.Strings(sigs)
	for _, sig := range sigs {
		v := e.viol[sig]
		ok := true
		for r := 0; r < 5; r++ {
			x := e.runOnce(v.Choices, r == 0)
			if r == 0 && x.sched != nil {
				v.Trace = x.sched.TraceLog
				if len(v.Trace) > 400 {
					v.Trace = append(v.Trace[:200], v.Trace[len(v.Trace)-200:]...)
				}
			}
			if !hasDisc(x.Disc, v.Kind, v.Subject) || hashObs(x.Obs) != hashObs(v.Obs) {
				ok = false
				break
			}
		}
		if !ok {
			res.Infra = fmt.Sprintf("violation %s did not reproduce deterministically from its choices %v", sig, v.Choices)
			continue
		}
		if v.Kind == "infra" {
			res.Infra = v.Subject + ": " + v.Detail
			continue
		}
		res.Violations = append(res.Violations, *v)
	}
	// determinism self-check on a passing schedule: the default schedule twice
	if len(res.Violations) == 0 && res.Infra == "" && job.Shard == 0 {
		a := e.runOnce(nil, false)
		b := e.runOnce(nil, false)
		res.SelfCheckRun = 2
		if hashObs(a.Obs) != hashObs(b.Obs) || len(a.sched.Points) != len(b.sched.Points) {
			res.Infra = "nondeterminism: the default schedule produced different observations on two runs:\n" + strings.Join(a.Obs, "\n") + "\n--- vs ---\n" + strings.Join(b.Obs, "\n")
		}
	}
	return res
}

func hasDisc(ds []Discrepancy, kind, subject string) bool {
	for _, d := range ds {
		if d.Kind == kind && d.Subject == subject {
			return true
		}
	}
	return false
}

func replay(e *explorer, v *Violation) {
	a := e.runOnce(v.Choices, true)
	b := e.runOnce(v.Choices, false)
	e.res.Executions = 2
	if hashObs(a.Obs) != hashObs(b.Obs) {
		e.res.Infra = "replay is not deterministic"
	}
	for _, d := range a.Disc {
		e.res.Violations = append(e.res.Violations, Violation{Discrepancy: d, Scenario: v.Scenario, Params: v.Params, Choices: v.Choices, Obs: a.Obs, Trace: a.sched.TraceLog})
	}
	if len(a.Disc) == 0 {
		e.res.Samples = append(e.res.Samples, map[string]any{"observations": a.Obs, "trace": a.sched.TraceLog})
	}
}
