// Command worker runs one verification job (JSON on stdin or -job) and prints
// one JSON result on stdout.
package main

import (
	"encoding/json"
	"flag"
	"fmt"
	"io"
	"os"
	"runtime"
	"runtime/debug"

	"github.com/maypok86/otter/v2/internal/verif/harness"
)

func main() {
	jobStr := flag.String("job", "", "job JSON (default: stdin)")
	list := flag.String("list", "", "print the job plan for a property")
	tier := flag.String("tier", "quick", "quick|thorough")
	procs := flag.Int("procs", 1, "GOMAXPROCS")
	flag.Parse()
	runtime.GOMAXPROCS(*procs)
	debug.SetGCPercent(400)
	if *list != "" {
		jobs := harness.Plan(*list, *tier)
		b, _ := json.Marshal(jobs)
		fmt.Println(string(b))
		return
	}
	var data []byte
	if *jobStr != "" {
		data = []byte(*jobStr)
	} else {
		data, _ = io.ReadAll(os.Stdin)
	}
	var job harness.Job
	if err := json.Unmarshal(data, &job); err != nil {
		fmt.Fprintln(os.Stderr, "bad job:", err)
		os.Exit(2)
	}
	res := harness.RunJob(&job)
	b, _ := json.Marshal(res)
	fmt.Println(string(b))
}
