package harness

import "fmt"

// Sequential plans: C01 (full conformance), and the alphabets shared by C03/C07/C12/C13/C20.

func featureCfgs(all bool) []CacheCfg {
	var out []CacheCfg
	bounds := []CacheCfg{{}, {MaxSize: 2}, {MaxWeight: 4}}
	expiries := []string{"", "creating", "writing", "accessing", "custom"}
	refreshes := []string{"", "writing"}
	for _, b := range bounds {
		for _, e := range expiries {
			for _, r := range refreshes {
				if !all && (e == "creating" || e == "custom") && r != "" {
					continue
				}
				c := b
				c.Expiry = e
				if e != "" {
					c.TTL = 100
				}
				c.Refresh = r
				if r != "" {
					c.RefreshTTL = 40
				}
				c.ClockStart = 1<<40 + 12345
				out = append(out, c)
			}
		}
	}
	return out
}

func baseAlphabet(keys []int, cfg CacheCfg, rich bool) []string {
	var a []string
	for _, k := range keys {
		a = append(a, fmt.Sprintf("set %d", k), fmt.Sprintf("get %d", k), fmt.Sprintf("inv %d", k))
		if rich {
			a = append(a, fmt.Sprintf("sia %d", k), fmt.Sprintf("gete %d", k), fmt.Sprintf("getq %d", k),
				fmt.Sprintf("cw %d", k), fmt.Sprintf("ci %d", k), fmt.Sprintf("cc %d", k),
				fmt.Sprintf("cia %d", k), fmt.Sprintf("ciac %d", k),
				fmt.Sprintf("cipw %d", k), fmt.Sprintf("cipi %d", k), fmt.Sprintf("cipc %d", k),
				fmt.Sprintf("load %d val", k), fmt.Sprintf("load %d err", k), fmt.Sprintf("load %d nf", k))
		}
		if cfg.MaxWeight > 0 {
			a = append(a, fmt.Sprintf("set %d 0", k), fmt.Sprintf("set %d 3", k))
			if rich {
				a = append(a, fmt.Sprintf("set %d 5", k))
			}
		}
		if cfg.Expiry == "custom" && rich {
			a = append(a, fmt.Sprintf("set %d 1 ttl=-1", k)) // the calculator declines: the entry gets no deadline
		}
		if cfg.Expiry != "" {
			a = append(a, fmt.Sprintf("sea %d 30", k))
			if rich {
				a = append(a, fmt.Sprintf("sea %d %d", k, tickNs+5))
			}
		}
		if cfg.Refresh != "" && rich {
			a = append(a, fmt.Sprintf("sra %d 30", k))
		}
	}
	if rich {
		a = append(a, "cp 1", "load 1 panic", "invall", "allinv", "all", "keys", "values", "coldest", "hottest", "all1", "coldest1", "hottest1", "mkiter all", "mkiter hottest", "useiter",
			"bulk 1,2 full", "bulk 1,2,1 partial", "bulk 2,3 extra", "bulk 1,3 err", "bulk 1,3 errextra", "bulk 1,2 empty")
	} else {
		a = append(a, "all")
	}
	a = append(a, "cleanup")
	if cfg.Expiry != "" || cfg.Refresh != "" {
		a = append(a, "adv 1", "adv 39", "adv 60", "adv 100", fmt.Sprintf("adv %d", tickNs)) // 100 = the TTL: exactly at a deadline
		if rich {
			a = append(a, fmt.Sprintf("adv %d", 2*tickNs+7))
		}
	}
	if cfg.Expiry != "" && rich {
		// iterations during which the clock passes a deadline (inside the loop body)
		a = append(a, "alladv 100", "keysadv 60", "coldestadv 100")
	}
	if cfg.MaxSize > 0 || cfg.MaxWeight > 0 {
		a = append(a, "setmax 1", "setmax 3")
		if rich {
			a = append(a, "setmax 0")
		}
	}
	if cfg.Executor == "deferred" {
		a = append(a, "runexec")
	}
	return a
}

func init() {
	plans["C01"] = func(thorough bool) []*Job {
		var jobs []*Job
		for _, cfg := range featureCfgs(true) { // every node type (bound × expiry × refresh) also in the quick tier
			keys := []int{1, 2, 3}
			depth, budget, shards := 3, 40, 2
			rich := true
			if thorough {
				depth, budget, shards = 4, 500, 4
			}
			p := seqParams{Cfg: cfg, Alphabet: baseAlphabet(keys, cfg, rich)}
			jobs = append(jobs, &Job{Scenario: "cache.seq", Params: js(p), Depth: depth, Shards: shards, BudgetS: budget})
		}
		// deferred executor (asynchrony as an explicit symbol) and InitialCapacity variants on a few layouts
		for _, cfg := range []CacheCfg{
			{MaxSize: 2, Expiry: "writing", TTL: 100, Refresh: "writing", RefreshTTL: 40, Executor: "deferred", ClockStart: 1 << 40},
			{MaxWeight: 4, Executor: "deferred"},
			{MaxSize: 2, InitCap: 1},
			{MaxSize: 2, InitCap: 1000, Expiry: "accessing", TTL: 100, ClockStart: 7},
		} {
			depth, budget := 3, 40
			if thorough {
				depth, budget = 4, 500
			}
			p := seqParams{Cfg: cfg, Alphabet: baseAlphabet([]int{1, 2, 3}, cfg, true)}
			jobs = append(jobs, &Job{Scenario: "cache.seq", Params: js(p), Depth: depth, Shards: 2, BudgetS: budget})
		}
		return jobs
	}
}
