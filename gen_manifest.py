#!/usr/bin/env python3
"""Regenerates MANIFEST.json from the table below (kept in one place so it is always schema-valid)."""
import json, sys
ENV = "GOFLAGS=-mod=mod GOPROXY=off GOSUMDB=off GOTOOLCHAIN=local"
claimed = {
 "C16": dict(
   text="Exhaustive preemption-bounded exploration (all interleavings of 2-3 producers and the consumer on the real MPSC queue at sync/atomic granularity, pb<=2-3 quick, pb<=3-5 thorough) across chunk switches and the full boundary; oracle: exactly-once, per-producer order, justified refusals, termination.",
   note="SC interleavings of the intercepted atomics; small queue capacities (2..16); plain accesses assumed race-free.",
   technique="stateless model checking of the implementation: controlled scheduler + preemption-bounded DFS",
   ref="5/C16"),
}
props = [json.loads(l) for l in open("/verif/properties.jsonl")]
checks, na = [], []
for p in props:
    pid = p["id"]
    if pid in claimed:
        c = claimed[pid]
        checks.append({
          "property_id": pid,
          "quick_cmd": f"bin/vcheck {pid} --tier quick",
          "thorough_cmd": f"bin/vcheck {pid} --tier thorough",
          "evidence_file": f"/verif/evidence/{pid}.json",
          "replay_cmd_template": f"bin/vcheck {pid} --replay {{path}}",
          "engine": c.get("engine","vsched+harness"),
          "level_claimed": {"category":"model_checking","text":c["text"],"design_ref":c["ref"]},
          "level_note": c["note"],
          "technique": c["technique"],
        })
    else:
        na.append({"property_id": pid, "reason": "check not built yet (work in progress; planned per DESIGN.md section 5)"})
m = {
 "version": 1,
 "setup_cmd": f"cd /verif && {ENV} go1.26.8 build -o bin/vcheck ./cmd/vcheck && bin/vcheck setup",
 "hooks": {
   "guard": "verif",
   "enable": "go1.26.8 build -tags verif -overlay <generated from /repo's working tree by /verif/instrument> ./internal/verif/worker (no hook code is committed to /repo; shims, seams and in-package zz_verif_*.go files are injected by overlay)",
   "baseline_off_cmd": f"cd /repo && {ENV} go1.26.8 test -vet=off -count=1 ./...",
   "source_commits": [],
   "add_only": True,
 },
 "engines": [
   {"name":"vsched+harness","path":"/verif/inject/internal/verif","serves_properties":[c["property_id"] for c in checks],
    "kind_free_text":"controlled cooperative scheduler over sync/sync-atomic shims + stateless preemption-bounded DFS on the real code (E2); sequential explicit-state BFS against a Go reference model (E1)"},
   {"name":"instrument","path":"/verif/instrument","serves_properties":[c["property_id"] for c in checks],
    "kind_free_text":"go/packages-based source rewriter producing a go build -overlay from /repo's working tree"},
 ],
 "checks": checks,
 "not_applicable": na,
 "notes": "All checks rebuild the instrumented worker from /repo's current working tree (content-hash keyed cache under /verif/.cache). Exit 0 = held within bounds, 1 = VIOLATION line, 2 = INFRA-ERROR.",
}
json.dump(m, open("/verif/MANIFEST.json","w"), indent=1)
print("claimed", len(checks), "na", len(na))
