//go:build verif

package otter

import "github.com/maypok86/otter/v2/internal/generated/node"

// Optional hook (C18, admission inside the eviction loop): a policy whose three queues are filled directly, so that
// evictNodes can be driven from every small layout. Fallback: inject/stubs/root/zz_verif_opt_evict.go.

// VerifEvictNode describes one entry of a layout: queue is "window" | "probation" | "protected".
type VerifEvictNode struct {
	Key    int
	Weight uint32
	Freq   int
	Queue  string
}

// VerifEviction is one call of the eviction callback, in order.
type VerifEviction struct {
	Key  int
	Freq uint64
}

// VerifEvictLayout builds a weighted policy with the given maximum, links the nodes (queue by queue, in the given
// order), records their frequencies, lowers the maximum to newMax and runs evictNodes. It returns the evictions in
// order, the estimates of all keys at eviction time, and ok=false if this build has no such hook.
func VerifEvictLayout(maximum, newMax uint64, nodes []VerifEvictNode) (evicted []VerifEviction, freq map[int]uint64, survivors map[int]string, ok bool) {
	return VerifEvictLayoutRetire(maximum, newMax, nodes, -1, 0)
}

// VerifEvictLayoutRetire does the same, and retires the node of retireKey (as a concurrent Invalidate of that key would:
// the node stays linked until its delete event is applied) right after the afterN-th eviction of the pass.
func VerifEvictLayoutRetire(maximum, newMax uint64, nodes []VerifEvictNode, retireKey, afterN int) (evicted []VerifEviction, freq map[int]uint64, survivors map[int]string, ok bool) {
	p := newPolicy[int, int](true)
	p.rand = func() uint32 { return 1 } // never the random admission
	p.setMaximumSize(maximum)
	p.sketch.ensureCapacity(64)
	nm := node.NewManager[int, int](node.Config{WithWeight: true})
	all := map[int]node.Node[int, int]{}
	for _, d := range nodes {
		n := nm.Create(d.Key, d.Key, 0, 0, d.Weight)
		all[d.Key] = n
		w := uint64(d.Weight)
		p.weightedSize += w
		switch d.Queue {
		case "window":
			n.MakeWindow()
			p.window.PushBack(n)
			p.windowWeightedSize += w
		case "probation":
			n.MakeMainProbation()
			p.probation.PushBack(n)
		default:
			n.MakeMainProtected()
			p.protected.PushBack(n)
			p.mainProtectedWeightedSize += w
		}
		for i := 0; i < d.Freq; i++ {
			p.sketch.increment(d.Key)
		}
	}
	freq = map[int]uint64{}
	for k := range all {
		freq[k] = p.sketch.frequency(k)
	}
	if newMax != maximum {
		p.setMaximumSize(newMax)
	}
	p.evictNodes(func(n node.Node[int, int], _ int64) {
		evicted = append(evicted, VerifEviction{Key: n.Key(), Freq: p.sketch.frequency(n.Key())})
		p.delete(n)
		if r, found := all[retireKey]; found && len(evicted) == afterN && r.IsAlive() {
			r.Retire()
		}
	})
	survivors = map[int]string{}
	for n := range p.window.All() {
		survivors[n.Key()] = "window"
	}
	for n := range p.probation.All() {
		survivors[n.Key()] = "probation"
	}
	for n := range p.protected.All() {
		survivors[n.Key()] = "protected"
	}
	return evicted, freq, survivors, true
}
