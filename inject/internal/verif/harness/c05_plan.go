package harness

// Plans for the quiescence properties that share the concurrent cache scenarios:
// C05 (bookkeeping audit), C06 (event ledger), C04 (size bound).

type concScen struct {
	label   string
	cfg     CacheCfg
	setup   []string
	threads [][]string
	variant string
}

func concScenarios() []concScen {
	two := []string{"set 1", "set 2"}
	promoted := []string{"set 1", "set 2", "get 1", "get 1", "cleanup", "get 1", "cleanup"}
	var out []concScen
	for _, ex := range []string{"caller", "default"} {
		sz2 := CacheCfg{MaxSize: 2, Executor: ex}
		sz1 := CacheCfg{MaxSize: 1, Executor: ex}
		// S1 update(k) || insert(j) that evicts
		out = append(out, concScen{"update‖insert-evict/" + ex, sz2, two, [][]string{{"set 1"}, {"set 3"}}, "native"})
		out = append(out, concScen{"update‖insert-evict(cap1)/" + ex, sz1, []string{"set 1"}, [][]string{{"set 1"}, {"set 3"}}, "native"})
		// S2 Set(k) || Invalidate(k): k new / in window / promoted
		out = append(out, concScen{"insert‖invalidate/" + ex, sz2, []string{"set 2"}, [][]string{{"set 1"}, {"inv 1"}}, "native"})
		out = append(out, concScen{"update‖invalidate/" + ex, sz2, two, [][]string{{"set 1"}, {"inv 1"}}, "native"})
		out = append(out, concScen{"update‖invalidate(promoted)/" + ex, CacheCfg{MaxSize: 3, Executor: ex}, promoted, [][]string{{"set 1"}, {"inv 1"}}, "native"})
		// S4 InvalidateAll || Set
		out = append(out, concScen{"invalidateAll‖set/" + ex, sz2, two, [][]string{{"invall"}, {"set 1"}}, "native"})
		// replacement || replacement of one key
		out = append(out, concScen{"update‖update/" + ex, sz2, two, [][]string{{"set 1"}, {"set 1"}}, "native"})
		// compute forms
		out = append(out, concScen{"compute-write‖compute-invalidate/" + ex, sz2, two, [][]string{{"cw 1"}, {"ci 1"}}, "native"})
	}
	// S5 with expiry (timer wheel membership)
	for _, ex := range []string{"caller", "default"} {
		e := CacheCfg{MaxSize: 2, Expiry: "writing", TTL: 1000, Executor: ex, ClockStart: 1 << 40}
		out = append(out, concScen{"update‖insert-evict(expiry)/" + ex, e, []string{"set 1", "set 2"}, [][]string{{"set 1"}, {"set 3"}}, "native"})
		out = append(out, concScen{"update‖invalidate(expiry)/" + ex, e, []string{"set 1", "set 2"}, [][]string{{"set 1"}, {"inv 1"}}, "native"})
		out = append(out, concScen{"insert‖insert‖read(expiry-only)/" + ex, CacheCfg{Expiry: "accessing", TTL: 1000, Executor: ex, ClockStart: 1 << 40}, []string{"set 1"}, [][]string{{"set 2"}, {"set 1"}, {"get 1"}}, "native"})
	}
	// weighted: update that changes the weight || insert
	for _, ex := range []string{"caller", "default"} {
		w := CacheCfg{MaxWeight: 4, Executor: ex}
		out = append(out, concScen{"weight-update‖insert/" + ex, w, []string{"set 1 2", "set 2 1"}, [][]string{{"set 1 3"}, {"set 3 1"}}, "native"})
		out = append(out, concScen{"weight-update‖setmax/" + ex, w, []string{"set 1 2", "set 2 1"}, [][]string{{"set 1 1"}, {"setmax 2"}}, "native"})
	}
	// the maximum is lowered while only reads are in flight: no write event will trigger maintenance later
	for _, ex := range []string{"caller", "default"} {
		out = append(out, concScen{"read‖setmax/" + ex, CacheCfg{MaxSize: 2, Executor: ex}, two, [][]string{{"get 1"}, {"setmax 1"}}, "native"})
		out = append(out, concScen{"insert‖setmax/" + ex, CacheCfg{MaxSize: 3, Executor: ex}, two, [][]string{{"set 3"}, {"setmax 1"}}, "native"})
	}
	// S6 load install || eviction
	out = append(out, concScen{"load‖insert-evict/caller", CacheCfg{MaxSize: 2, Executor: "caller"}, two, [][]string{{"load 3"}, {"set 4"}}, "native"})
	return out
}

func concPlan(oracles []string, pbQuick, pbThorough int, post ...string) func(thorough bool) []*Job {
	return func(thorough bool) []*Job {
		var jobs []*Job
		pb, budget := pbQuick, 60
		if thorough {
			pb, budget = pbThorough, 600
		}
		for _, s := range concScenarios() {
			p := concParams{Label: s.label, Cfg: s.cfg, Setup: s.setup, Threads: s.threads, Oracles: oracles, Post: post}
			npb := pb
			if len(s.threads) > 2 && npb > 1 && !thorough {
				npb = 1
			}
			jobs = append(jobs, &Job{Scenario: "cache.conc", Params: js(p), Variant: s.variant, PB: npb, Shards: 8, BudgetS: budget})
		}
		return jobs
	}
}

func init() {
	plans["C05"] = concPlan([]string{"audit"}, 2, 3)
	plans["C06"] = concPlan([]string{"ledger"}, 2, 3)
	// C04: after the race, three more inserts: a weight total that a lost update left too low (or too high)
	// shows up as a cache that retains more than its maximum
	plans["C04"] = concPlan([]string{"bound"}, 2, 3, "set 7", "set 8", "set 9")
}
